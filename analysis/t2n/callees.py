"""Callee classification (DESIGN Appendix A).  Paths are canonical def paths as printed by the
driver with generic arguments stripped (`alloc::vec::Vec::push`, `core::str::ends_with`)."""
import re

from .mir import strip_generics

# --- effectful: I/O, environment, clocks, threads, global state, randomness, FFI ------------
EFFECT_PATTERNS = [
    r'^std::io::', r'^std::fs::', r'^std::env::', r'^std::time::', r'^std::process::', r'^std::net::',
    r'^std::thread::', r'^std::sync::', r'^core::sync::', r'^alloc::sync::', r'^std::os::', r'^std::path::',
    r'^core::cell::', r'^std::cell::', r'^std::rt::', r'^std::panic::', r'^std::backtrace::',
    r'^std::sys::', r'^std::sys_common::', r'^std::ffi::', r'^core::ffi::',
    r'^rand', r'^getrandom', r'^libc::', r'^std::collections::hash::map::RandomState',
    r'^std::hash::random', r'^core::intrinsics::', r'^core::ptr::', r'^std::ptr::', r'^core::mem::transmute',
    r'^std::alloc::', r'^alloc::alloc::', r'^core::arch::', r'^std::arch::',
    r'^std::thread_local', r'^std::dbg', r'^std::print', r'^std::eprint', r'^log::', r'^tracing::',
    r'^once_cell::', r'^lazy_static::',
]
_EFFECT = [re.compile(p) for p in EFFECT_PATTERNS]

# --- ASCII-only whitespace facilities (B10) ---------------------------------------------------
WS_ASCII = {
    'core::char::methods::is_ascii_whitespace',
    'core::num::is_ascii_whitespace',          # u8::is_ascii_whitespace
    'core::str::split_ascii_whitespace',
    'core::str::trim_ascii', 'core::str::trim_ascii_start', 'core::str::trim_ascii_end',
    'core::slice::ascii::trim_ascii', 'core::slice::ascii::trim_ascii_start', 'core::slice::ascii::trim_ascii_end',
    'core::ascii::ascii_char::AsciiChar::is_whitespace',
}
WS_UNICODE = {
    'core::char::methods::is_whitespace', 'core::str::split_whitespace', 'core::str::trim',
    'core::str::trim_start', 'core::str::trim_end',
}

# --- partial: may panic on some arguments -------------------------------------------------------
PARTIAL_EXACT = {
    'core::option::Option::unwrap', 'core::option::Option::expect', 'core::option::Option::unwrap_unchecked',
    'core::result::Result::unwrap', 'core::result::Result::expect', 'core::result::Result::unwrap_err',
    'core::result::Result::expect_err',
    'core::ops::index::Index::index', 'core::ops::index::IndexMut::index_mut',
    'core::slice::copy_from_slice', 'core::slice::clone_from_slice', 'core::slice::swap_with_slice',
    'core::slice::split_at', 'core::slice::split_at_mut', 'core::slice::swap', 'core::slice::chunks',
    'core::slice::chunks_exact', 'core::slice::windows', 'core::slice::rotate_left', 'core::slice::rotate_right',
    'core::slice::copy_within', 'core::slice::select_nth_unstable', 'core::slice::first_chunk',
    'core::str::split_at', 'core::str::split_at_mut',
    'alloc::vec::Vec::drain', 'alloc::vec::Vec::insert', 'alloc::vec::Vec::remove', 'alloc::vec::Vec::swap_remove',
    'alloc::vec::Vec::split_off', 'alloc::vec::Vec::truncate_front', 'alloc::vec::Vec::splice',
    'alloc::vec::Vec::extend_from_within',
    'alloc::string::String::remove', 'alloc::string::String::insert', 'alloc::string::String::insert_str',
    'alloc::string::String::drain', 'alloc::string::String::replace_range', 'alloc::string::String::split_off',
    'alloc::string::String::truncate',
    'alloc::collections::vec_deque::VecDeque::drain', 'alloc::collections::vec_deque::VecDeque::insert',
    'alloc::collections::vec_deque::VecDeque::swap', 'alloc::collections::vec_deque::VecDeque::split_off',
    'alloc::collections::vec_deque::VecDeque::range',
    'core::panicking::panic', 'core::panicking::panic_fmt', 'core::panicking::panic_display',
    'core::panicking::panic_explicit', 'core::panicking::assert_failed', 'core::panicking::unreachable_display',
    'core::panicking::panic_bounds_check', 'core::panicking::panic_nounwind', 'core::panicking::panic_const',
    'std::rt::begin_panic', 'std::rt::panic_fmt', 'core::option::unwrap_failed', 'core::result::unwrap_failed',
    'core::char::from_digit', 'core::char::methods::to_digit', 'core::char::methods::from_digit',
    'core::iter::traits::iterator::Iterator::step_by', 'core::iter::adapters::step_by::StepBy::new',
    'core::num::abs', 'core::num::pow', 'core::num::div_euclid', 'core::num::rem_euclid', 'core::num::ilog',
    'core::num::ilog2', 'core::num::ilog10', 'core::num::next_power_of_two', 'core::num::isqrt',
    'core::cmp::Ord::clamp', 'core::f64::clamp',
    'core::unreachable', 'core::hint::unreachable_unchecked', 'core::hint::assert_unchecked',
}
_PARTIAL_RE = [re.compile(p) for p in (
    r'^core::panicking::', r'::unwrap$', r'::expect$', r'::unwrap_err$', r'::expect_err$',
    r'::index$', r'::index_mut$',
)]


# A `static X: LazyLock<T> = LazyLock::new(|| ..)` is a constant computed on first use: the initialiser of a static cannot capture
# anything, so its value does not depend on which call came first.  (OnceLock::get_or_init / set can store a value derived from
# the first caller's arguments and stay classified as effects.)
_WRITE_ONCE = re.compile(r'^std::sync::(lazy_lock::)?LazyLock::(new|force|deref)$|^<std::sync::(lazy_lock::)?LazyLock<.*> as core::ops::deref::Deref>::deref$'
                         r'|^std::sync::lazy_lock::<impl core::ops::deref::Deref for std::sync::(lazy_lock::)?LazyLock<.*>>::deref$')
# Hash collections: look-ups are functions of their arguments; anything that walks the table exposes the per-process random order.
_HASH = re.compile(r'^std::collections::hash::(map|set)::')
_HASH_WALK = re.compile(r'::(iter|iter_mut|keys|values|values_mut|into_keys|into_values|drain|retain|extract_if|into_iter|difference|union|intersection|symmetric_difference)$')


def is_effectful(path):
    p = strip_generics(path or '')
    if _WRITE_ONCE.search(p) or _WRITE_ONCE.search(path or ''):
        return False
    if _HASH.search(p):
        return bool(_HASH_WALK.search(p))
    return any(r.search(p) for r in _EFFECT)


def is_partial(path, resolved=None):
    for p in (strip_generics(path or ''), strip_generics(resolved or '')):
        if not p:
            continue
        if p in PARTIAL_EXACT:
            return True
        if any(r.search(p) for r in _PARTIAL_RE):
            return True
    return False


PURE_PREFIXES = (
    'core::str::', 'alloc::str::', 'alloc::string::', 'core::slice::', 'alloc::slice::', 'alloc::vec::',
    'alloc::collections::', 'core::option::', 'core::result::', 'core::iter::', 'core::cmp::', 'core::ops::',
    'core::fmt::', 'alloc::fmt::', 'core::char::', 'core::num::', 'core::convert::', 'core::clone::',
    'core::default::', 'core::hash::', 'core::f64::', 'core::f32::', 'core::hint::must_use', 'core::borrow::',
    'alloc::borrow::', 'core::marker::', 'core::array::', 'core::mem::take', 'core::mem::replace',
    'core::mem::swap', 'core::mem::drop', 'core::ascii::', 'core::unicode::', 'alloc::boxed::', 'core::any::',
    'core::tuple::', 'core::bool::', 'core::range::', 'core::error::', 'alloc::rc::',
    'phf::', 'phf_shared::', 'daachorse::', 'bitflags::',
)


def classify(path, resolved=None, local_paths=()):
    """-> 'local' | 'effect' | 'partial' | 'pure' | 'unknown'"""
    for p in (resolved, path):
        if p and p in local_paths:
            return 'local'
    p = strip_generics(resolved or path or '')
    q = strip_generics(path or '')
    if is_effectful(p) or is_effectful(q):
        return 'effect'
    if is_partial(path, resolved):
        return 'partial'
    for cand in (p, q):
        c = cand
        if c.startswith('<'):
            # <T as Trait>::m  -> classify by trait path
            m = re.match(r'^<.* as ([^>]+?)>::', c)
            if m:
                c = m.group(1) + '::'
        if c.startswith(PURE_PREFIXES) or _HASH.search(c) or _WRITE_ONCE.search(c) or _WRITE_ONCE.search(cand):
            return 'pure'
    return 'unknown'
