//! Positive fixture: one instance of every construct that the zero-count rules must report
//! (B10 WS-API, C-STATELESS statics/effects/unsafe).  It is analysed by the same driver and
//! rules on every thorough run; a rule that stops firing here is broken.

use std::cell::Cell;
use std::sync::atomic::{AtomicUsize, Ordering};

pub static mut COUNTER: usize = 0;
pub static CALLS: AtomicUsize = AtomicUsize::new(0);

thread_local! {
    pub static LAST: Cell<usize> = Cell::new(0);
}

pub struct Leaky {
    pub hits: Cell<usize>,
}

pub fn ascii_only(text: &str) -> bool {
    text.chars().all(|c| c.is_ascii_whitespace())
}

pub fn ascii_split(text: &str) -> usize {
    text.split_ascii_whitespace().count() + text.split(' ').count()
}

pub fn ascii_fn_item(text: &str) -> bool {
    text.bytes().all(|b| b.is_ascii_whitespace()) && text.chars().all(|c| char::is_ascii_whitespace(&c))
}

pub fn noisy(word: &str) -> usize {
    eprintln!("saw {word}");
    println!("saw {word}");
    dbg!(word.len())
}

pub fn stateful() -> usize {
    CALLS.fetch_add(1, Ordering::Relaxed);
    LAST.with(|l| l.set(1));
    unsafe {
        COUNTER += 1;
        COUNTER
    }
}

pub fn environment() -> bool {
    std::env::var("HOME").is_ok() && std::time::Instant::now().elapsed().as_nanos() > 0
}

pub fn partial(v: &[u8], o: Option<u8>) -> u8 {
    v[3] + o.unwrap()
}

pub fn spin() -> usize {
    let mut n = 0;
    loop {
        if n > 10 {
            n = 0;
        }
        n += 1;
    }
}
