"""Behaviour-preserving edits of /repo: every check must stay SILENT on each of them
(renamings, reordering of disjoint arms, commuted operands, reformatting, added synonyms, harmless
pure calls).  Run with tools/mutants.py --equivalent."""

E = []


def e(eid, path, pairs):
    """pairs: list of (old, new, count) — count None = replace all occurrences (>= 1)."""
    E.append({'id': eid, 'file': path, 'pairs': pairs})


EN = 'src/lang/en/mod.rs'
FR = 'src/lang/fr/mod.rs'
ES = 'src/lang/es/mod.rs'
PT = 'src/lang/pt/mod.rs'
IT = 'src/lang/it/mod.rs'
DE = 'src/lang/de/mod.rs'
NL = 'src/lang/nl/mod.rs'
DS = 'src/digit_string.rs'
WD = 'src/word_to_digit.rs'
TK = 'src/tokenizer.rs'
LM = 'src/lang/mod.rs'
LIB = 'src/lib.rs'

e('rename-padding-zeroes', DS, [('padding_zeroes', 'pad', None)])
e('rename-new-buffer', DS, [('new_buffer', 'grown', None)])
e('rename-sig-indices', EN, [('significant_tokens_indices', 'sig', None)])
e('en-seven-not-eq', EN, [('"seven" | "seventh" if b.peek(2) != b"10" => b.put(b"7"),', '"seven" | "seventh" if !(b.peek(2) == b"10") => b.put(b"7"),', 1)])
e('rename-lo-token-test', WD, [('lo_token', 'lower', None), ('let test = ', 'let probe = ', 1), ('self.parser.push(test)', 'self.parser.push(probe)', 1)])
e('rename-forget-flag', WD, [('forget_if_isolate', 'hold_it', None)])
e('rename-occurence-local', WD, [('let occurence = Occurence {', 'let occ = Occurence {', 1), ('push_back(occurence)', 'push_back(occ)', None), ('replace(occurence)', 'replace(occ)', 1)])
e('es-reorder-arms', ES, [('            "cero" => b.put(b"0"),\n            "un" | "uno" | "una" if b.peek(2) != b"10" && b.peek(2) != b"20" => b.put(b"1"),\n',
                          '            "un" | "uno" | "una" if b.peek(2) != b"10" && b.peek(2) != b"20" => b.put(b"1"),\n            "cero" => b.put(b"0"),\n', 1)])
e('de-extra-synonym', DE, [('"zwei" | "zwo" | "zweite" if b.is_free(2)', '"zwei" | "zwo" | "zwoh" | "zweite" if b.is_free(2)', 1)])
e('text2digits-trim', WD, [('text.to_lowercase().split_whitespace()', 'text.trim().to_lowercase().split_whitespace()', 1)])
e('tokenizer-rename-end', TK, [('let end = if c.is_alphanumeric() {', 'let stop = if c.is_alphanumeric() {', 1), ('&self.source[pos..end]', '&self.source[pos..stop]', 1)])
e('fr-rename-true-words', FR, [('true_words', 'words', None)])
e('facade-reorder-variants', LM, [('delegate!(Dutch, French, English, German, Italian, Spanish, Portuguese);', 'delegate!(English, French, German, Italian, Spanish, Portuguese, Dutch);', 1)])
e('iso-reorder-arms', LIB, [('        "de" => Some(Language::german()),\n        "en" => Some(Language::english()),\n', '        "en" => Some(Language::english()),\n        "de" => Some(Language::german()),\n', 1)])
e('it-lemmatize-reorder', IT, [('        "prim"\n            | "second"\n', '        "second"\n            | "prim"\n', 1)])
e('pt-rename-flags', PT, [('smaller_blocked', 'small_blocked', None), ('only_multipliers', 'mult_only', None), ('next_restrictions', 'next_r', None)])
e('fr-rename-blocking', FR, [('to_block', 'next_block', None), ('blocked.contains', 'prev_block.contains', None), ('let blocked = ', 'let prev_block = ', 1)])
e('push-commute-skip-test', WD, [('if token.text() == "-" || is_whitespace(token.text()) {', 'if is_whitespace(token.text()) || token.text() == "-" {', 1)])
e('peek-min-commuted', DS, [('let range = length.min(positions);', 'let range = positions.min(length);', 1)])
e('is-whitespace-closure', WD, [('token.chars().all(char::is_whitespace)', 'token.chars().all(|c| c.is_whitespace())', 1)])
e('en-decimal-reorder', EN, [('            "one" => b.push(b"1"),\n            "two" => b.push(b"2"),\n', '            "two" => b.push(b"2"),\n            "one" => b.push(b"1"),\n', 1)])
e('nl-shift-lines', NL, [('//! Dutch number interpreter\n', '//! Dutch number interpreter\n//!\n//! (documentation reflowed)\n//!\n//!\n', 1)])
e('is-free-all-zeros', DS, [('self.is_empty() || self.peek(positions).iter().all(|&c| c == b\'0\')', 'self.is_empty() || all_zeros(self.peek(positions))', 1)])
e('rename-shift-l', DS, [('        let l = self.buffer.len();\n        if l <= positions {\n            return {\n                self.buffer.resize(l + positions, b\'0\');',
                          '        let length = self.buffer.len();\n        let l = length;\n        if l <= positions {\n            return {\n                self.buffer.resize(l + positions, b\'0\');', 1)])
e('de-lemma-inline', DE, [('        let status = match lemma {\n            "null" => b.put(b"0"),', '        let status = match lemmatize(num_func) {\n            "null" => b.put(b"0"),', 1)])
e('number-end-early-kind', WD, [('        let kind = if is_ordinal {\n            MatchKind::Ordinal\n        } else {\n            MatchKind::Cardinal\n        };',
                                 '        let kind = match is_ordinal {\n            true => MatchKind::Ordinal,\n            false => MatchKind::Cardinal,\n        };', 1)])
e('replace-loop-explicit', WD, [('        for Occurence {\n            start, end, text, ..\n        } in self.matches.into_iter().rev()\n        {\n            let repr: T = Replace::replace(tokens.drain(start..end), text);\n            tokens.insert(start, repr);\n        }',
                                 '        for occ in self.matches.into_iter().rev() {\n            let Occurence { start, end, text, .. } = occ;\n            let repr: T = Replace::replace(tokens.drain(start..end), text);\n            tokens.insert(start, repr);\n        }', 1)])
# only UN and UN_SIX are ever stored in the flags: testing DEUX instead of TROIS refuses exactly the same inputs
e('fr-trois-tests-deux', FR, [('"trois" | "troisième" if !blocked.contains(Excludable::TROIS)', '"trois" | "troisième" if !blocked.contains(Excludable::DEUX)', 1)])
# the span invariant start <= end makes these identities (flagged by the former shape rules B12/B13)
e('replace-insert-min', WD, [('tokens.insert(start, repr);', 'tokens.insert(start.min(end), repr);', 1)])
e('occ-start-min', WD, [('            start: self.match_start,\n            end: self.match_end,', '            start: self.match_start.min(self.match_end),\n            end: self.match_end,', 1)])
# after a not-a-number token no number is in progress, so `previous` is never consulted before it is overwritten
e('nan-path-keeps-previous', WD, [('            self.outside_number(&token);\n            self.previous.replace(token);\n            return;', '            self.outside_number(&token);\n            return;', 1)])
e('fr-annotate-truncate-noop', FR, [('        let mut b = DigitString::new();\n        let mut true_words: Vec<usize> = Vec::with_capacity(tokens.len());', '        let mut b = DigitString::new();\n        tokens.truncate(usize::MAX);\n        let mut true_words: Vec<usize> = Vec::with_capacity(tokens.len());', 1)])
# an arm after the macro expansion that can never be reached (flagged by the former shape rule C-DELEGATION)
e('facade-unreachable-arm', LM, [('                    Language::$variant(l) => l.apply(num_func, b),\n                )*', '                    Language::$variant(l) => l.apply(num_func, b),\n                )*\n                #[allow(unreachable_patterns)]\n                Language::Dutch(_) => German::default().apply(num_func, b),', 1)])
# an extra interpretation of the word on a scratch builder whose result is dropped: no observable effect
e('outside-number-extra-apply', WD, [('        let text = token.text();\n        if !(', '        let text = token.text();\n        let _ = self.lang.apply(token.text_lowercase(), &mut DigitString::new());\n        if !(', 1)])
