"""One-hunk breakages of /repo used to self-test the checker (DESIGN §1.3, Appendix D).

Each mutant: id, property it must be caught by, file, old text, new text, and the rule id prefix expected in the
violation keys.  All mutants compile and pass the 136 tests (verified with tools/mutants.py --verify when the
fixture was created; see fixtures/mutants_verified.json).
"""

M = []


def m(mid, props, path, old, new, rule):
    M.append({'id': mid, 'props': props if isinstance(props, list) else [props], 'file': path, 'old': old, 'new': new, 'rule': rule})


EN = 'src/lang/en/mod.rs'
FR = 'src/lang/fr/mod.rs'
ES = 'src/lang/es/mod.rs'
PT = 'src/lang/pt/mod.rs'
IT = 'src/lang/it/mod.rs'
DE = 'src/lang/de/mod.rs'
NL = 'src/lang/nl/mod.rs'
DS = 'src/digit_string.rs'
WD = 'src/word_to_digit.rs'
TK = 'src/tokenizer.rs'
LM = 'src/lang/mod.rs'
LIB = 'src/lib.rs'

# --- C01
m('c01-en-thirteen-14', 'C01', EN, '"thirteen" | "thirteenth" => b.put(b"13"),', '"thirteen" | "thirteenth" => b.put(b"14"),', 'A1-LEX-CARD')
m('c01-de-drop-tausend-pattern', 'C01', DE, '                "tausend",\n                "tausendste",', '                "tausendste",', 'A3-SPLIT-CLOSURE')
m('c01-es-million-shift9', 'C01', ES, '"millon" | "millón" | "millonésimo" | "millonésima" if b.is_range_free(6, 8) => {\n                b.shift(6)',
  '"millon" | "millón" | "millonésimo" | "millonésima" if b.is_range_free(6, 8) => {\n                b.shift(9)', 'A1-LEX-CARD')
m('c01-it-drop-mila-pattern', 'C01', IT, '                "venti",\n                "mila",\n', '                "venti",\n', 'A3-SPLIT-CLOSURE')
m('c01-nl-zeventig-6', 'C01', NL, '"zeventig" | "zeventigste" if !blocked.contains(Excludable::TENS) => {\n                b.put_digit_at(b\'7\', 1)',
  '"zeventig" | "zeventigste" if !blocked.contains(Excludable::TENS) => {\n                b.put_digit_at(b\'6\', 1)', 'A1-LEX-CARD')
m('c01-pt-lemmatize-duas', 'C01', PT, 'word.ends_with("as") && word != "duas"', 'word.ends_with("as") && word != "dua"', 'A1-LEX-CARD')
# --- C02
m('c02-match-word-plus1', 'C02', TK, 'if !(c.is_alphanumeric() || *c == \'-\' || *c == \'\\\'\') {\n                    break *pos;',
  'if !(c.is_alphanumeric() || *c == \'-\' || *c == \'\\\'\') {\n                    break *pos + c.len_utf8() - c.len_utf8().min(1);', 'V02')
m('c02-token-trim', 'C02', TK, 'text: text.to_owned(),\n            lowercase: text.to_lowercase(),', 'text: text.trim_end_matches(\'\\u{feff}\').to_owned(),\n            lowercase: text.to_lowercase(),', 'V02')
m('c02-replace-no-rev', 'C02', WD, 'in self.matches.into_iter().rev()', 'in self.matches.into_iter()', 'V02|B11')
m('c02-join-zwsp', 'C02', WD, 'out.join("")', 'out.join("\\u{200b}").replace(\'\\u{200b}\', "")', 'V02|B11')
# --- C03
m('c03-text2digits-unwrap', 'C03', WD, 'pub fn text2digits<T: LangInterpreter>(text: &str, lang: &T) -> Result<String, Error> {\n',
  'pub fn text2digits<T: LangInterpreter>(text: &str, lang: &T) -> Result<String, Error> {\n    let _first = text.split_whitespace().next().unwrap();\n', 'B1-PANIC-SITES|V03')
m('c03-put-drop-short-arm', ['C03', 'C12'], DS, '            l if l < positions => Err(Error::Overlap),\n', '', 'B1-PANIC-SITES')
m('c03-match-sep-no-next', 'C03', TK, '                if c.is_alphanumeric() {\n                    break *pos;\n                }\n                self.chars.next();',
  '                if c.is_alphanumeric() {\n                    break *pos;\n                }\n                if false { self.chars.next(); }', 'B2-PROGRESS')
m('c03-revert-f01', 'C03', WD, '        Ok(ds) if ds.is_empty() => Err(Error::NaN),\n', '', 'V03')
m('c03-dup-splitter-pattern', ['C03', 'C01'], NL, '                "en",\n                "ën",', '                "en",\n                "en",', 'B1-PANIC-SITES|A3-SPLIT')
m('c03-finalize-always', 'C03', WD, '    fn finalize(&mut self) {\n        if self.parser.has_number() {\n            self.number_end()\n        }',
  '    fn finalize(&mut self) {\n        if self.parser.has_number() || self.previous.is_none() {\n            self.number_end()\n        }', 'V03')
# --- C04
m('c04-de-marker-ten', 'C04', DE, 'if word.ends_with("te") {\n            MorphologicalMarker::Ordinal(".")', 'if word.ends_with("ten") {\n            MorphologicalMarker::Ordinal(".")', 'A2-LEX-ORD')
m('c04-nl-achste', 'C04', NL, '"acht" | "achtste" if b.is_free(2)', '"acht" | "achste" if b.is_free(2)', 'A2-LEX-ORD')
m('c04-en-third-postlude', 'C04', EN, '                || lemma == "third")', '                || lemma == "thirdd")', 'A2-LEX-ORD')
m('c04-it-marker-a-only', 'C04', IT, "'a' | 'e' => MorphologicalMarker::Ordinal(\"ª\"),", "'a' => MorphologicalMarker::Ordinal(\"ª\"),", 'A2-LEX-ORD')
m('c04-pt-nonagesimo-80', 'C04', PT, '"novent" | "nonagésim" if !smaller_blocked => b.put(b"90"),', '"novent" if !smaller_blocked => b.put(b"90"),\n            "nonagésim" if !smaller_blocked => b.put(b"80"),', 'A2-LEX-ORD')
m('c04-es-marker-plural', 'C04', ES, "let is_plur = word.ends_with('s');", "let is_plur = word.ends_with(\"os\");", 'A2-LEX-ORD')
# --- C05
m('c05-en-sep-dot', 'C05', EN, 'word == "point"', 'word == "dot"', 'A5-SEP-MARK')
m('c05-fr-mark-dot', 'C05', FR, '(format!("{sint},{sdec}"), val)', '(format!("{sint}.{sdec}"), val)', 'A5-SEP-MARK')
m('c05-de-drei-2', 'C05', DE, '"drei" => b.push(b"3"),', '"drei" => b.push(b"2"),', 'A4-DEC-TABLE')
m('c05-push-drop-nonempty', 'C05', WD, '            && !self.int_part.is_empty()\n            && !self.int_part.is_ordinal()', '            && !self.int_part.is_ordinal()', 'V')
m('c05-sv-drop-dec-nonempty', 'C05', WD, 'let res = if self.is_dec && !self.dec_part.is_empty() {', 'let res = if self.is_dec {', 'V')
m('c05-it-swap-args', 'C05', IT, 'let val = format!("{sint}.{sdec}").parse().unwrap();\n        (format!("{sint},{sdec}"), val)\n    }\n\n    fn is_linking',
  'let val = format!("{sint}.{sdec}").parse().unwrap();\n        (format!("{sdec},{sint}"), val)\n    }\n\n    fn is_linking', 'A5-SEP-MARK')
# --- C06
m('c06-ordinal-after-reset', 'C06', WD, '        let is_ordinal = self.parser.is_ordinal();\n        let (digits, value) = self.parser.string_and_value();',
  '        let (digits, value) = self.parser.string_and_value();\n        let is_ordinal = self.parser.is_ordinal();', 'V')
m('c06-es-ordinal-no-marker', ['C06', 'C04'], ES, 'MorphologicalMarker::Ordinal(marker) => (format!("{repr}{marker}"), val),', 'MorphologicalMarker::Ordinal(_marker) => (format!("{repr}"), val),', 'A5-SEP-MARK')
m('c06-revert-f04', 'C06', WD, '            && !self.int_part.is_ordinal()\n', '', 'V')
m('c06-advance-start-always', 'C06', WD, '        if self.match_start == self.match_end {\n            self.match_start = pos\n        }', '        if self.match_start <= self.match_end {\n            self.match_start = pos\n        }', 'V')
# --- C07
m('c07-revert-f05', ['C07', 'C12'], DS, '        if implicit_one {\n            padding_zeroes -= 1;\n        }', '        if implicit_one {\n            self.buffer[l - 1] = b\'1\';\n            padding_zeroes -= 1;\n        }', 'B3-FAIL-ATOMIC')
m('c07-retry-with-test', ['C07', 'C15'], WD, 'if self.parser.push(lo_token).is_ok() {', 'if self.parser.push(test).is_ok() {', 'V')
m('c07-drop-number-end', ['C07', 'C15'], WD, '            Err(_) if self.parser.has_number() => {\n                self.number_end();', '            Err(_) if self.parser.has_number() => {', 'V')
# --- C08
m('c08-en-seven-unguarded', 'C08', EN, '"seven" | "seventh" if b.peek(2) != b"10" => b.put(b"7"),', '"seven" | "seventh" => b.put(b"7"),', 'A7')
m('c08-de-vier-no-block', 'C08', DE, '            "vier" | "vierte" if b.is_free(2) => {\n                to_block = Excludable::TENS;\n                b.put(b"4")', '            "vier" | "vierte" if b.is_free(2) => {\n                b.put(b"4")', 'A7')
m('c08-pt-onze-unblocked', 'C08', PT, '"onze" if !smaller_blocked => b.put(b"11"),', '"onze" => b.put(b"11"),', 'A7')
m('c08-es-y-unguarded', 'C08', ES, '"y" if b.len() >= 2 => Err(Error::Incomplete),', '"y" => Err(Error::Incomplete),', 'A10-CONJ')
m('c08-nl-flags-not-cleared', 'C08', NL, '        } else {\n            b.flags = 0;\n        }\n        status\n    }\n\n    fn apply_decimal', '        } else {\n            b.flags = b.flags & 1;\n        }\n        status\n    }\n\n    fn apply_decimal', 'A7')
# --- C09
m('c09-policy-eq', 'C09', WD, 'if self.last_contiguous_match != kind {\n            self.last_contiguous_match = MatchKind::None;', 'if self.last_contiguous_match == kind {\n            self.last_contiguous_match = MatchKind::None;', 'V09')
m('c09-drop-take', 'C09', WD, '            self.matches.push_back(occurence);\n            self.on_hold.take();', '            self.matches.push_back(occurence);', 'V09')
m('c09-le-threshold', 'C09', WD, 'value < self.threshold;', 'value <= self.threshold;', 'V09')
m('c09-or-ordinal', 'C09', WD, '(digits.len() == 1 || is_ordinal) && value < self.threshold;', '(digits.len() == 1 && value < self.threshold) || is_ordinal;', 'V09')
m('c09-negate-flag', 'C09', WD, '.number_end(is_ordinal, digits, value, forget_if_isolate);', '.number_end(is_ordinal, digits, value, !forget_if_isolate);', 'V09')
m('c09-threshold-in-breaker', 'C09', WD, '            || self.lang.is_linking(token.text_lowercase()))', '            || self.lang.is_linking(token.text_lowercase())\n            || self.threshold > 1e300)', 'V09')
m('c09-breaker-and', 'C09', WD, 'text.chars().all(|c| !c.is_alphabetic()) && text.trim() != "."', 'text.chars().all(|c| !c.is_alphabetic()) || text.trim() != "."', 'V09')
# --- C10
m('c10-no-reset', ['C10', 'C07'], WD, '        self.reset();\n        res\n', '        res\n', 'V')
m('c10-reset-forgets-flags', 'C10', DS, '        self.buffer.clear();\n        self.flags = 0;\n    }', '        self.buffer.clear();\n    }', 'V12|V')
m('c10-revert-f06', 'C10', FR, '                // the scratch builder must not carry digits over to the next ambiguous word\n                b.reset();\n', '', 'B7-SCRATCH')
m('c10-parser-reset-forgets-isdec', 'C10', WD, '        self.dec_part.reset();\n        self.is_dec = false;', '        self.dec_part.reset();', 'V12|V')
m('c10-en-no-reset', ['C10', 'C18'], EN, '                {\n                    b.reset()\n                } else {', '                {\n                } else {', 'B7-SCRATCH')
# --- C11
m('c11-revert-f07', 'C11', WD, '|| self.lang.is_linking(token.text_lowercase()))', '|| self.lang.is_linking(text))', 'V|S11')
m('c11-text2digits-no-lower', ['C11'], WD, 'lang.exec_group(text.to_lowercase().split_whitespace())', 'lang.exec_group(text.split_whitespace())', 'V|B10')
m('c11-token-lowercase-raw', 'C11', TK, 'lowercase: text.to_lowercase(),', 'lowercase: text.to_owned(),', 'V|S11')
m('c11-push-raw-text', 'C11', WD, '        let lo_token = token.text_lowercase();', '        let lo_token = token.text();', 'V|S11')
# --- C12
m('c12-revert-f08', 'C12', DS, '        if self.buffer.is_empty() {\n            // nothing placed yet: every position is free\n            return true;\n        }\n', '', 'B1-PANIC-SITES')
m('c12-revert-f09', 'C12', DS, '    pub fn push(&mut self, digits: &[u8]) -> Result<(), Error> {\n        if self.frozen {\n            return Err(Error::Frozen);\n        }\n', '    pub fn push(&mut self, digits: &[u8]) -> Result<(), Error> {\n', 'B4-FROZEN')
m('c12-fput-no-frozen', 'C12', DS, '    pub fn fput(&mut self, digits: &[u8]) -> Result<(), Error> {\n        if self.frozen {\n            return Err(Error::Frozen);\n        }\n', '    pub fn fput(&mut self, digits: &[u8]) -> Result<(), Error> {\n', 'B4-FROZEN')
m('c12-len-ignores-zeros', ['C12', 'C16'], DS, '        self.buffer.len() + self.leading_zeroes\n', '        self.buffer.len()\n', 'V12|V')
m('c12-put-write-before-check', 'C12', DS, '            l if all_zeros(&self.buffer[(l - positions)..]) => {\n                self.buffer[(l - positions)..].copy_from_slice(digits);\n                Ok(())\n            }\n            _ => Err(Error::Overlap),',
  '            l => {\n                let free = all_zeros(&self.buffer[(l - positions)..]);\n                self.buffer[(l - positions)..].copy_from_slice(digits);\n                if free { Ok(()) } else { Err(Error::Overlap) }\n            }', 'B')
m('c12-put-digit-at-no-zero-check', 'C12', DS, '        } else if self.buffer[len - 1 - position] == b\'0\' {', '        } else if self.buffer[len - 1 - position] <= b\'1\' {', 'V12')
# --- C13
m('c13-no-annotate', 'C13', LM, '        fn basic_annotate<T: BasicAnnotate>(&self, tokens: &mut Vec<T>) {\n            match self {\n                $(\n                    Language::$variant(l) => l.basic_annotate(tokens),\n                )*\n            }\n        }\n', '', 'C-DELEGATION')
m('c13-nl-german', 'C13', LIB, '"nl" => Some(Language::dutch()),', '"nl" => Some(Language::german()),', 'C-ISO')
m('c13-it-deleted', 'C13', LIB, '        "it" => Some(Language::italian()),\n', '', 'C-ISO')
m('c13-spanish-ctor-pt', 'C13', LM, 'Language::Spanish(Spanish::default())', 'Language::Portuguese(Portuguese::default())', 'C-CTOR')
m('c13-normalise-code', 'C13', LIB, '    match language_code {\n        "de"', '    match language_code.trim() {\n        "de"', 'C-ISO')
# --- C14
m('c14-eprintln', 'C14', EN, '    fn is_linking(&self, word: &str) -> bool {\n        INSIGNIFICANT.contains(word)', '    fn is_linking(&self, word: &str) -> bool {\n        if word.len() > 40 { eprintln!("long word"); }\n        INSIGNIFICANT.contains(word)', 'C-STATELESS/effects')
m('c14-static-atomic', 'C14', LIB, 'pub fn get_interpreter_for(language_code: &str) -> Option<Language> {\n', 'static LOOKUPS: std::sync::atomic::AtomicUsize = std::sync::atomic::AtomicUsize::new(0);\n\npub fn get_interpreter_for(language_code: &str) -> Option<Language> {\n    LOOKUPS.fetch_add(1, std::sync::atomic::Ordering::Relaxed);\n', 'C-STATELESS')
m('c14-cell-field', 'C14', FR, '#[derive(Default)]\npub struct French {}', '#[derive(Default)]\npub struct French {\n    calls: std::cell::Cell<usize>,\n}', 'C-STATELESS/types')
m('c14-env-var', 'C14', LIB, '    match language_code {\n        "de"', '    let language_code = if language_code.is_empty() && std::env::var("T2N_LANG").is_ok() { "en" } else { language_code };\n    match language_code {\n        "de"', 'C-STATELESS/effects')
# --- C15
m('c15-iter-no-ready-check', 'C15', WD, '            self.push(pos, token);\n            if self.tracker.has_matches() {\n                return self.tracker.pop();\n            }\n        }\n        self.finalize();\n        self.tracker.pop()',
  '            self.push(pos, token);\n        }\n        self.finalize();\n        self.tracker.pop()', 'V')
m('c15-nan-falls-through', 'C15', WD, '            self.outside_number(&token);\n            self.previous.replace(token);\n            return;\n        }\n        let lo_token', '            self.outside_number(&token);\n        }\n        let lo_token', 'V')
m('c15-comma-to-lotoken', 'C15', WD, '                "," // force stop without loosing token (see below)', '                lo_token', 'V')
m('c15-pop-back', 'C15', WD, '        self.matches.pop_front()', '        self.matches.pop_back()', 'V')
m('c15-eager-new', 'C15', WD, '    fn new(input: I, lang: &\'a L, threshold: f64) -> Self {\n        Self {', '    fn new(mut input: I, lang: &\'a L, threshold: f64) -> Self {\n        let _peeked = if threshold.is_nan() { input.next() } else { None };\n        Self {', 'V')
# --- C16
m('c16-revert-f13', 'C16', IT, '"milione" if b.is_range_free(6, 8) => {\n                if b.peek(2) != b"1" {', '"milione" if b.is_range_free(6, 8) => {\n                if b.len() != 1 || b.peek(1) != b"1" {', 'A9b')
m('c16-en-zero-guarded', ['C16', 'C08'], EN, '"zero" | "o" | "nought" => b.put(b"0"),\n            "one"', '"zero" | "o" | "nought" if b.is_empty() => b.put(b"0"),\n            "one"', 'A6-ZERO')
m('c16-is-empty-ignores-zeros', ['C16', 'C12'], DS, '        self.buffer.is_empty() && self.leading_zeroes == 0\n', '        self.buffer.is_empty()\n', 'V12|V')
m('c16-count-zero-nonempty', ['C16', 'C12', 'C08'], DS, '        if self.buffer.is_empty() && digits == b"0" {', '        if digits == b"0" {', 'V12')
m('c16-to-string-drops-zeros', ['C16', 'C12'], DS, '        let mut res = "0".repeat(self.leading_zeroes);', '        let mut res = "0".repeat(self.leading_zeroes.min(0));\n        let _ = self.leading_zeroes;', 'V12|A0')
# --- C17
m('c17-revert-f14', 'C17', EN, 'all(|c| c.is_whitespace())', 'all(|c| c.is_ascii_whitespace())', 'B10-WS')
m('c17-is-whitespace-ascii', 'C17', WD, 'token.chars().all(char::is_whitespace)', 'token.chars().all(|c| c.is_ascii_whitespace())', 'B10-WS')
m('c17-split-space', ['C17'], WD, 'text.to_lowercase().split_whitespace()', "text.to_lowercase().split(' ').filter(|w| !w.is_empty())", 'V|B10')
m('c17-trim-space', 'C17', WD, 'text.trim() != "."', "text.trim_matches(' ') != \".\"", 'B10-WS')
m('c17-sep-stops-at-space', ['C17', 'C02'], TK, '                if c.is_alphanumeric() {\n                    break *pos;\n                }\n                self.chars.next();\n            } else {\n                break self.source.len();\n            }\n        }\n    }\n}',
  '                if c.is_alphanumeric() || *c == \'\\u{a0}\' {\n                    break *pos;\n                }\n                self.chars.next();\n            } else {\n                break self.source.len();\n            }\n        }\n    }\n}', 'V02')
# --- C18
m('c18-dec-drops-o', ['C18', 'C05'], EN, '"zero" | "o" | "nought" => b.push(b"0"),', '"zero" | "nought" => b.push(b"0"),', 'A')
m('c18-neighbour-plus2', 'C18', EN, 'j + 1 < significant_tokens_indices.len()\n                        && self\n                            .apply(\n                                tokens[significant_tokens_indices[j + 1]].text_lowercase(),',
  'j + 2 < significant_tokens_indices.len()\n                        && self\n                            .apply(\n                                tokens[significant_tokens_indices[j + 2]].text_lowercase(),', 'A-O-ANNOTATE')
m('c18-mark-zero-too', 'C18', EN, 'if tokens[i].text_lowercase() == "o" {', 'if tokens[i].text_lowercase() == "o" || tokens[i].text_lowercase() == "zero" {', 'A-O-ANNOTATE')
m('c18-o-own-arm', ['C18', 'C16'], EN, '"zero" | "o" | "nought" => b.put(b"0"),\n            "one"', '"zero" | "nought" => b.put(b"0"),\n            "o" if b.is_null() => b.put(b"0"),\n            "one"', 'A')
m('c18-skip-punctuation', 'C18', EN, 'if !t.text_lowercase().chars().all(|c| c.is_whitespace()) {', 'if !t.text_lowercase().chars().all(|c| c.is_whitespace() || c == \',\') {', 'A-O-ANNOTATE')
# --- added after seeded round 1
m('c01-en-five-overstrict', 'C01', EN, '"five" | "fifth" if b.peek(2) != b"10" => b.put(b"5"),', '"five" | "fifth" if b.peek(2) != b"10" && b.peek(1) != b"0" => b.put(b"5"),', 'A1c-COMPOSE')
m('c01-es-mil-01', 'C01', ES, '                if peek == b"1" {\n                    Err(Error::Overlap)\n                } else {\n                    b.shift(3)', '                if peek == b"1" || peek == b"01" {\n                    Err(Error::Overlap)\n                } else {\n                    b.shift(3)', 'A1b-SCALE')
m('c04-en-group-no-marker', 'C04', EN, '                    if ds.marker.is_ordinal() {\n                        b.marker = ds.marker;\n                        b.freeze()\n                    }', '                    if ds.marker.is_ordinal() {\n                        b.freeze()\n                    }', 'A2b-GROUP')
m('c04-it-group-no-freeze', 'C04', IT, '                    if marker.is_ordinal() {\n                        b.marker = marker;\n                        b.freeze()\n                    }', '                    if marker.is_ordinal() {\n                        b.marker = marker;\n                    }', 'A2b-GROUP')
m('c08-fr-unsix-31', 'C08', FR, 'const UN_SIX = 63;// all previous OR\'ed', 'const UN_SIX = 31;// all previous OR\'ed', 'A7b-BLOCK')
m('c07-en-ten-put-then-err', 'C07', EN, '"ten" | "tenth" => b.put(b"10"),', '"ten" | "tenth" => {\n                let r = b.put(b"10");\n                if b.len() > 12 { b.freeze(); Err(Error::Overlap) } else { r }\n            }', 'A8b')
