//! Item tables: ADTs (fields, Freeze/Send/Sync), statics, fns (visibility, signature), impls, traits.

use crate::hirdump::def_path;
use crate::json::J;
use crate::{expansion_of, span_str};
use rustc_hir::def::DefKind;
use rustc_infer::infer::TyCtxtInferExt;
use rustc_middle::ty::{self, Ty, TyCtxt};
use rustc_span::sym;
use rustc_trait_selection::infer::InferCtxtExt;

fn implements<'tcx>(tcx: TyCtxt<'tcx>, ty: Ty<'tcx>, tr: rustc_hir::def_id::DefId) -> bool {
    let infcx = tcx.infer_ctxt().build(ty::TypingMode::PostAnalysis);
    infcx
        .type_implements_trait(tr, [ty], ty::ParamEnv::empty())
        .must_apply_modulo_regions()
}

pub fn dump_items(tcx: TyCtxt<'_>) -> J {
    let mut adts = Vec::new();
    let mut statics = Vec::new();
    let mut fns = Vec::new();
    let mut impls = Vec::new();
    let mut traits = Vec::new();
    let mut others = Vec::new();
    let ev = tcx.effective_visibilities(());
    let send = tcx.get_diagnostic_item(sym::Send);
    let sync = tcx.lang_items().sync_trait();

    for did in tcx.hir_crate_items(()).definitions() {
        let kind = tcx.def_kind(did);
        let path = def_path(tcx, did.to_def_id());
        let sp = span_str(tcx, tcx.def_span(did));
        match kind {
            DefKind::Struct | DefKind::Enum | DefKind::Union => {
                let adt = tcx.adt_def(did);
                let generic = tcx.generics_of(did).count() > 0;
                let mut variants = Vec::new();
                for (vidx, v) in adt.variants().iter_enumerated() {
                    let fields: Vec<J> = v
                        .fields
                        .iter()
                        .map(|f| {
                            let fty = tcx.type_of(f.did).instantiate_identity().skip_norm_wip();
                            J::Obj(vec![
                                ("name", J::s(f.name.to_string())),
                                ("ty", J::s(fty.to_string())),
                                ("vis", J::s(format!("{:?}", f.vis))),
                                ("pub", J::Bool(f.vis.is_public())),
                            ])
                        })
                        .collect();
                    variants.push(J::Obj(vec![
                        ("name", J::s(v.name.to_string())),
                        ("idx", J::Int(vidx.as_usize() as i128)),
                        ("fields", J::Arr(fields)),
                    ]));
                }
                let mut v = vec![
                    ("path", J::s(path)),
                    ("kind", J::s(format!("{:?}", kind))),
                    ("sp", J::s(sp)),
                    ("exp", J::opt_s(expansion_of(tcx.def_span(did)))),
                    ("generic", J::Bool(generic)),
                    ("exported", J::Bool(ev.is_exported(did))),
                    ("variants", J::Arr(variants)),
                ];
                if !generic {
                    let t = tcx.type_of(did).instantiate_identity().skip_norm_wip();
                    let env = ty::TypingEnv::fully_monomorphized();
                    v.push(("freeze", J::Bool(t.is_freeze(tcx, env))));
                    if let Some(s) = send {
                        v.push(("send", J::Bool(implements(tcx, t, s))));
                    }
                    if let Some(s) = sync {
                        v.push(("sync", J::Bool(implements(tcx, t, s))));
                    }
                }
                adts.push(J::Obj(v));
            }
            DefKind::Static { mutability, nested, .. } => {
                let t = tcx.type_of(did).instantiate_identity().skip_norm_wip();
                let env = ty::TypingEnv::fully_monomorphized();
                statics.push(J::Obj(vec![
                    ("path", J::s(path)),
                    ("sp", J::s(sp)),
                    ("exp", J::opt_s(expansion_of(tcx.def_span(did)))),
                    ("mut", J::Bool(mutability.is_mut())),
                    ("nested", J::Bool(nested)),
                    ("ty", J::s(t.to_string())),
                    ("freeze", J::Bool(t.is_freeze(tcx, env))),
                    ("thread_local", J::Bool(tcx.is_thread_local_static(did.to_def_id()))),
                ]));
            }
            DefKind::Fn | DefKind::AssocFn => {
                let sig = tcx.fn_sig(did).instantiate_identity().skip_norm_wip();
                let sigs = sig.skip_binder();
                let inputs: Vec<J> = sigs.inputs().iter().map(|t| J::s(t.to_string())).collect();
                let mut v = vec![
                    ("path", J::s(path)),
                    ("kind", J::s(format!("{:?}", kind))),
                    ("name", J::s(tcx.item_name(did.to_def_id()).to_string())),
                    ("sp", J::s(sp)),
                    ("exp", J::opt_s(expansion_of(tcx.def_span(did)))),
                    ("vis", J::s(format!("{:?}", tcx.visibility(did)))),
                    ("pub", J::Bool(tcx.visibility(did).is_public())),
                    ("exported", J::Bool(ev.is_exported(did))),
                    ("reachable", J::Bool(ev.is_reachable(did))),
                    ("unsafe", J::Bool(sigs.safety().is_unsafe())),
                    ("inputs", J::Arr(inputs)),
                    ("output", J::s(sigs.output().to_string())),
                    ("has_body", J::Bool(tcx.hir_maybe_body_owned_by(did).is_some())),
                ];
                if kind == DefKind::AssocFn {
                    let parent = tcx.parent(did.to_def_id());
                    v.push(("parent", J::s(def_path(tcx, parent))));
                    v.push(("parent_kind", J::s(format!("{:?}", tcx.def_kind(parent)))));
                    if let DefKind::Impl { .. } = tcx.def_kind(parent) {
                        let st = tcx.type_of(parent).instantiate_identity().skip_norm_wip();
                        v.push(("self_ty", J::s(st.to_string())));
                        if let Some(tr) = tcx.impl_opt_trait_ref(parent) {
                            let tr = tr.instantiate_identity().skip_norm_wip();
                            v.push(("trait", J::s(def_path(tcx, tr.def_id))));
                        }
                    }
                    let assoc = tcx.associated_item(did);
                    v.push(("has_self", J::Bool(assoc.is_method())));
                }
                fns.push(J::Obj(v));
            }
            DefKind::Impl { of_trait } => {
                let st = tcx.type_of(did).instantiate_identity().skip_norm_wip();
                let mut v = vec![
                    ("path", J::s(path)),
                    ("sp", J::s(sp)),
                    ("exp", J::opt_s(expansion_of(tcx.def_span(did)))),
                    ("self_ty", J::s(st.to_string())),
                    ("of_trait", J::Bool(of_trait)),
                ];
                if let Some(tr) = tcx.impl_opt_trait_ref(did) {
                    let tr = tr.instantiate_identity().skip_norm_wip();
                    v.push(("trait", J::s(def_path(tcx, tr.def_id))));
                    v.push(("trait_ref", J::s(tr.to_string())));
                }
                let items: Vec<J> = tcx
                    .associated_items(did)
                    .in_definition_order()
                    .map(|a| {
                        J::Obj(vec![
                            ("name", J::s(a.name().to_string())),
                            ("path", J::s(def_path(tcx, a.def_id))),
                            ("kind", J::s(format!("{:?}", a.tag()))),
                        ])
                    })
                    .collect();
                v.push(("items", J::Arr(items)));
                impls.push(J::Obj(v));
            }
            DefKind::Trait => {
                let items: Vec<J> = tcx
                    .associated_items(did)
                    .in_definition_order()
                    .map(|a| {
                        J::Obj(vec![
                            ("name", J::s(a.name().to_string())),
                            ("path", J::s(def_path(tcx, a.def_id))),
                            ("kind", J::s(format!("{:?}", a.tag()))),
                            ("has_default", J::Bool(a.defaultness(tcx).has_value())),
                        ])
                    })
                    .collect();
                traits.push(J::Obj(vec![
                    ("path", J::s(path)),
                    ("sp", J::s(sp)),
                    ("exported", J::Bool(ev.is_exported(did))),
                    ("items", J::Arr(items)),
                ]));
            }
            DefKind::Const { .. } | DefKind::AssocConst { .. } | DefKind::Mod | DefKind::Macro(_) | DefKind::ExternCrate
            | DefKind::ForeignMod | DefKind::GlobalAsm | DefKind::TyAlias => {
                others.push(J::Obj(vec![
                    ("path", J::s(path)),
                    ("kind", J::s(format!("{:?}", kind))),
                    ("sp", J::s(sp)),
                    ("exp", J::opt_s(expansion_of(tcx.def_span(did)))),
                ]));
            }
            _ => {}
        }
    }
    J::Obj(vec![
        ("adts", J::Arr(adts)),
        ("statics", J::Arr(statics)),
        ("fns", J::Arr(fns)),
        ("impls", J::Arr(impls)),
        ("traits", J::Arr(traits)),
        ("others", J::Arr(others)),
    ])
}
