//! Minimal JSON value + serializer (no external crates are available to a rustc_private driver).

pub enum J {
    Null,
    Bool(bool),
    Int(i128),
    Str(String),
    Arr(Vec<J>),
    Obj(Vec<(&'static str, J)>),
}

impl J {
    pub fn s<T: Into<String>>(t: T) -> J {
        J::Str(t.into())
    }
    pub fn opt_s(t: Option<String>) -> J {
        match t {
            Some(s) => J::Str(s),
            None => J::Null,
        }
    }
    pub fn write(&self, out: &mut String) {
        match self {
            J::Null => out.push_str("null"),
            J::Bool(b) => out.push_str(if *b { "true" } else { "false" }),
            J::Int(i) => out.push_str(&i.to_string()),
            J::Str(s) => write_str(s, out),
            J::Arr(v) => {
                out.push('[');
                for (i, x) in v.iter().enumerate() {
                    if i > 0 {
                        out.push(',');
                    }
                    x.write(out);
                }
                out.push(']');
            }
            J::Obj(v) => {
                out.push('{');
                let mut first = true;
                for (k, x) in v.iter() {
                    if let J::Null = x {
                        continue;
                    }
                    if !first {
                        out.push(',');
                    }
                    first = false;
                    write_str(k, out);
                    out.push(':');
                    x.write(out);
                }
                out.push('}');
            }
        }
    }
}

fn write_str(s: &str, out: &mut String) {
    out.push('"');
    for c in s.chars() {
        match c {
            '"' => out.push_str("\\\""),
            '\\' => out.push_str("\\\\"),
            '\n' => out.push_str("\\n"),
            '\r' => out.push_str("\\r"),
            '\t' => out.push_str("\\t"),
            c if (c as u32) < 0x20 => out.push_str(&format!("\\u{:04x}", c as u32)),
            c => out.push(c),
        }
    }
    out.push('"');
}
