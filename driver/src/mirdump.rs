//! MIR serialisation (optimized_mir at -Zmir-opt-level=0) of every local fn-like body.

use crate::hirdump::def_path;
use crate::json::J;
use crate::{expansion_of, span_str};
use rustc_hir::def::DefKind;
use rustc_hir::def_id::LocalDefId;
use rustc_middle::mir::{self, *};
use rustc_middle::ty::{self, TyCtxt, TypeVisitableExt};

struct Mx<'a, 'tcx> {
    tcx: TyCtxt<'tcx>,
    body: &'a Body<'tcx>,
    owner: LocalDefId,
}

impl<'a, 'tcx> Mx<'a, 'tcx> {
    fn place(&self, p: &Place<'tcx>) -> J {
        let mut proj = Vec::new();
        for (base, elem) in p.iter_projections() {
            let j = match elem {
                ProjectionElem::Deref => J::s("deref"),
                ProjectionElem::Field(f, ty) => {
                    let bty = base.ty(&self.body.local_decls, self.tcx);
                    let mut name = None;
                    if let ty::Adt(adt, _) = bty.ty.kind() {
                        let vidx = bty.variant_index.unwrap_or(rustc_abi::FIRST_VARIANT);
                        if vidx.as_usize() < adt.variants().len() {
                            let v = adt.variant(vidx);
                            if f.as_usize() < v.fields.len() {
                                name = Some(v.fields[f].name.to_string());
                            }
                        }
                    }
                    J::Obj(vec![
                        ("f", J::Int(f.as_usize() as i128)),
                        ("name", J::opt_s(name)),
                        ("ty", J::s(ty.to_string())),
                        ("of", J::s(bty.ty.to_string())),
                    ])
                }
                ProjectionElem::Index(l) => J::Obj(vec![("idx", J::Int(l.as_usize() as i128))]),
                ProjectionElem::ConstantIndex { offset, min_length, from_end } => J::Obj(vec![
                    ("cidx", J::Int(offset as i128)),
                    ("min", J::Int(min_length as i128)),
                    ("from_end", J::Bool(from_end)),
                ]),
                ProjectionElem::Subslice { from, to, from_end } => J::Obj(vec![
                    ("sub_from", J::Int(from as i128)),
                    ("sub_to", J::Int(to as i128)),
                    ("from_end", J::Bool(from_end)),
                ]),
                ProjectionElem::Downcast(name, vidx) => J::Obj(vec![
                    ("dc", J::Int(vidx.as_usize() as i128)),
                    ("name", J::opt_s(name.map(|s| s.to_string()))),
                ]),
                ProjectionElem::OpaqueCast(_) => J::s("opaque"),
                ProjectionElem::UnwrapUnsafeBinder(_) => J::s("unwrap_binder"),
            };
            proj.push(j);
        }
        J::Obj(vec![
            ("l", J::Int(p.local.as_usize() as i128)),
            ("p", J::Arr(proj)),
            ("s", J::s(format!("{:?}", p))),
        ])
    }

    fn constant(&self, c: &ConstOperand<'tcx>) -> J {
        let ty = c.const_.ty();
        let mut shown = format!("{}", c.const_);
        if let Const::Unevaluated(uv, _) = c.const_ {
            // promoted constants (`&"o"`, `&b"10"`): show the value, not the promoted path.
            // Only for non-generic promoteds: evaluation of generic ones would be "too generic".
            if let Some(pidx) = uv.promoted {
                let mut done = false;
                if uv.def.is_local() {
                    // read the literal out of the promoted body itself (`_0 = &_1; _1 = const b"0"`)
                    let proms = self.tcx.promoted_mir(uv.def);
                    if pidx.as_usize() < proms.len() {
                        let pb = &proms[pidx];
                        let mut lits = Vec::new();
                        for bb in pb.basic_blocks.iter() {
                            for st in bb.statements.iter() {
                                if let StatementKind::Assign(b) = &st.kind {
                                    if let Rvalue::Use(Operand::Constant(k), _) = &b.1 {
                                        lits.push(format!("{}", k.const_));
                                    }
                                    if let Rvalue::Aggregate(kind, ops) = &b.1 {
                                        if let AggregateKind::Adt(did, vidx, _, _, _) = &**kind {
                                            if ops.is_empty() {
                                                let adt = self.tcx.adt_def(*did);
                                                lits.push(format!("&{}::{}", def_path(self.tcx, *did), adt.variant(*vidx).name));
                                            }
                                        }
                                    }
                                }
                            }
                        }
                        if lits.len() == 1 {
                            shown = lits.pop().unwrap();
                            done = true;
                        }
                    }
                }
                if !done && !uv.args.iter().any(|a| a.has_non_region_param()) {
                    let env = ty::TypingEnv::post_analysis(self.tcx, self.owner);
                    if let Ok(val) = c.const_.eval(self.tcx, env, c.span) {
                        shown = format!("{}", Const::Val(val, ty));
                    }
                }
            }
        }
        let mut v = vec![
            ("k", J::s("const")),
            ("s", J::s(shown)),
            ("ty", J::s(ty.to_string())),
        ];
        if let Const::Val(rustc_middle::mir::ConstValue::Scalar(rustc_middle::mir::interpret::Scalar::Ptr(ptr, _)), _) = c.const_ {
            // a reference to a static item (`&INSIGNIFICANT`): name it
            let aid = ptr.provenance.alloc_id();
            if let rustc_middle::mir::interpret::GlobalAlloc::Static(did) = self.tcx.global_alloc(aid) {
                v.push(("static", J::s(def_path(self.tcx, did))));
            }
        }
        if let Const::Unevaluated(uv, _) = c.const_ {
            if let Some(pidx) = uv.promoted {
                if uv.def.is_local() {
                    // the promoted body itself is dumped as `<owner>::{promoted#i}` (see dump_mir)
                    v.push(("promoted", J::s(format!("{}::{{promoted#{}}}", def_path(self.tcx, uv.def), pidx.as_usize()))));
                }
            }
        }
        if let ty::FnDef(did, args) = ty.kind() {
            v.push(("fn", J::s(def_path(self.tcx, *did))));
            v.push(("gargs", J::s(format!("{:?}", args))));
        }
        if ty.is_integral() || ty.is_bool() || ty.is_char() {
            let env = ty::TypingEnv::post_analysis(self.tcx, self.owner);
            if let Some(si) = c.const_.try_eval_scalar_int(self.tcx, env) {
                let n: i128 = if ty.is_signed() {
                    si.to_int(si.size())
                } else {
                    si.to_uint(si.size()) as i128
                };
                v.push(("int", J::Int(n)));
            }
        }
        J::Obj(v)
    }

    fn operand(&self, o: &Operand<'tcx>) -> J {
        match o {
            Operand::Copy(p) => J::Obj(vec![("k", J::s("copy")), ("pl", self.place(p))]),
            Operand::Move(p) => J::Obj(vec![("k", J::s("move")), ("pl", self.place(p))]),
            Operand::Constant(c) => self.constant(c),
            other => J::Obj(vec![("k", J::s("other")), ("s", J::s(format!("{:?}", other)))]),
        }
    }

    fn rvalue(&self, r: &Rvalue<'tcx>) -> J {
        match r {
            Rvalue::Use(o, _) => J::Obj(vec![("k", J::s("use")), ("op", self.operand(o))]),
            Rvalue::Repeat(o, n) => {
                let mut v = vec![("k", J::s("repeat")), ("op", self.operand(o)), ("n_s", J::s(format!("{}", n)))];
                let env = ty::TypingEnv::post_analysis(self.tcx, self.owner);
                if let Some(k) = n.try_to_target_usize(self.tcx) {
                    v.push(("n", J::Int(k as i128)));
                } else {
                    let _ = env;
                }
                J::Obj(v)
            }
            Rvalue::Ref(_, bk, p) => {
                let b = match bk {
                    BorrowKind::Shared => "shared",
                    BorrowKind::Fake(_) => "fake",
                    BorrowKind::Mut { .. } => "mut",
                };
                J::Obj(vec![("k", J::s("ref")), ("bk", J::s(b)), ("pl", self.place(p))])
            }
            Rvalue::ThreadLocalRef(d) => J::Obj(vec![("k", J::s("tlref")), ("def", J::s(def_path(self.tcx, *d)))]),
            Rvalue::RawPtr(kind, p) => J::Obj(vec![
                ("k", J::s("rawptr")),
                ("bk", J::s(format!("{:?}", kind))),
                ("pl", self.place(p)),
            ]),
            Rvalue::Cast(ck, o, ty) => J::Obj(vec![
                ("k", J::s("cast")),
                ("ck", J::s(format!("{:?}", ck))),
                ("op", self.operand(o)),
                ("ty", J::s(ty.to_string())),
            ]),
            Rvalue::BinaryOp(op, ab) => J::Obj(vec![
                ("k", J::s("bin")),
                ("op", J::s(format!("{:?}", op))),
                ("a", self.operand(&ab.0)),
                ("b", self.operand(&ab.1)),
            ]),
            Rvalue::UnaryOp(op, a) => J::Obj(vec![
                ("k", J::s("un")),
                ("op", J::s(format!("{:?}", op))),
                ("a", self.operand(a)),
            ]),
            Rvalue::Discriminant(p) => {
                let pty = p.ty(&self.body.local_decls, self.tcx).ty;
                let adt = match pty.kind() {
                    ty::Adt(a, _) => Some(def_path(self.tcx, a.did())),
                    _ => None,
                };
                let vnames = match pty.kind() {
                    ty::Adt(a, _) if a.is_enum() => {
                        J::Arr(a.variants().iter().map(|v| J::s(v.name.to_string())).collect())
                    }
                    _ => J::Null,
                };
                J::Obj(vec![
                    ("k", J::s("discr")),
                    ("variants", vnames),
                    ("pl", self.place(p)),
                    ("adt", J::opt_s(adt)),
                    ("of", J::s(pty.to_string())),
                ])
            }
            Rvalue::Aggregate(kind, ops) => {
                let mut v = vec![("k", J::s("agg"))];
                match &**kind {
                    AggregateKind::Array(_) => v.push(("ak", J::s("array"))),
                    AggregateKind::Tuple => v.push(("ak", J::s("tuple"))),
                    AggregateKind::Adt(did, vidx, _, _, _) => {
                        v.push(("ak", J::s("adt")));
                        v.push(("adt", J::s(def_path(self.tcx, *did))));
                        let adt = self.tcx.adt_def(*did);
                        v.push(("vidx", J::Int(vidx.as_usize() as i128)));
                        v.push(("is_enum", J::Bool(adt.is_enum())));
                        v.push(("variant", J::s(adt.variant(*vidx).name.to_string())));
                        let names: Vec<J> =
                            adt.variant(*vidx).fields.iter().map(|f| J::s(f.name.to_string())).collect();
                        v.push(("fields", J::Arr(names)));
                    }
                    AggregateKind::Closure(did, _) => {
                        v.push(("ak", J::s("closure")));
                        v.push(("def", J::s(def_path(self.tcx, *did))));
                    }
                    other => v.push(("ak", J::s(format!("{:?}", other)))),
                }
                v.push(("ops", J::Arr(ops.iter().map(|o| self.operand(o)).collect())));
                J::Obj(v)
            }
            Rvalue::CopyForDeref(p) => J::Obj(vec![("k", J::s("copyforderef")), ("pl", self.place(p))]),
            other => J::Obj(vec![("k", J::s("other")), ("s", J::s(format!("{:?}", other)))]),
        }
    }

    fn unwind(&self, u: &UnwindAction) -> J {
        match u {
            UnwindAction::Cleanup(bb) => J::Int(bb.as_usize() as i128),
            UnwindAction::Continue => J::s("continue"),
            UnwindAction::Unreachable => J::s("unreachable"),
            UnwindAction::Terminate(_) => J::s("terminate"),
        }
    }

    fn statement(&self, s: &Statement<'tcx>) -> Option<J> {
        let mut v: Vec<(&'static str, J)> = match &s.kind {
            StatementKind::Assign(b) => {
                let (p, r) = &**b;
                vec![("k", J::s("assign")), ("pl", self.place(p)), ("rv", self.rvalue(r))]
            }
            StatementKind::SetDiscriminant { place, variant_index } => vec![
                ("k", J::s("setdiscr")),
                ("pl", self.place(place)),
                ("vidx", J::Int(variant_index.as_usize() as i128)),
            ],
            StatementKind::Intrinsic(i) => vec![("k", J::s("intrinsic")), ("s", J::s(format!("{:?}", i)))],
            StatementKind::StorageLive(_)
            | StatementKind::StorageDead(_)
            | StatementKind::Nop
            | StatementKind::FakeRead(_)
            | StatementKind::PlaceMention(_)
            | StatementKind::AscribeUserType(..)
            | StatementKind::Coverage(_)
            | StatementKind::ConstEvalCounter
            | StatementKind::BackwardIncompatibleDropHint { .. } => return None,
            #[allow(unreachable_patterns)]
            other => vec![("k", J::s("otherstmt")), ("s", J::s(format!("{:?}", other)))],
        };
        v.push(("sp", J::s(span_str(self.tcx, s.source_info.span))));
        if let Some(x) = expansion_of(s.source_info.span) {
            v.push(("exp", J::s(x)));
        }
        Some(J::Obj(v))
    }

    fn terminator(&self, t: &Terminator<'tcx>) -> J {
        let mut v: Vec<(&'static str, J)> = match &t.kind {
            TerminatorKind::Goto { target } => vec![("k", J::s("goto")), ("t", J::Int(target.as_usize() as i128))],
            TerminatorKind::SwitchInt { discr, targets } => {
                let ts: Vec<J> = targets
                    .iter()
                    .map(|(val, bb)| J::Arr(vec![J::Int(val as i128), J::Int(bb.as_usize() as i128)]))
                    .collect();
                vec![
                    ("k", J::s("switch")),
                    ("op", self.operand(discr)),
                    ("targets", J::Arr(ts)),
                    ("otherwise", J::Int(targets.otherwise().as_usize() as i128)),
                ]
            }
            TerminatorKind::UnwindResume => vec![("k", J::s("resume"))],
            TerminatorKind::UnwindTerminate(_) => vec![("k", J::s("terminate"))],
            TerminatorKind::Return => vec![("k", J::s("return"))],
            TerminatorKind::Unreachable => vec![("k", J::s("unreachable"))],
            TerminatorKind::Drop { place, target, unwind, .. } => vec![
                ("k", J::s("drop")),
                ("pl", self.place(place)),
                ("t", J::Int(target.as_usize() as i128)),
                ("unwind", self.unwind(unwind)),
            ],
            TerminatorKind::Call { func, args, destination, target, unwind, call_source, fn_span } => {
                let mut v = vec![("k", J::s("call"))];
                let fty = func.ty(&self.body.local_decls, self.tcx);
                if let ty::FnDef(did, gargs) = fty.kind() {
                    v.push(("callee", J::s(def_path(self.tcx, *did))));
                    v.push(("gargs", J::s(format!("{:?}", gargs))));
                    let env = ty::TypingEnv::post_analysis(self.tcx, self.owner);
                    if matches!(self.tcx.def_kind(*did), DefKind::Fn | DefKind::AssocFn) {
                        let ga = self.tcx.erase_and_anonymize_regions(*gargs);
                        if let Ok(Some(inst)) = ty::Instance::try_resolve(self.tcx, env, *did, ga) {
                            v.push(("resolved", J::s(def_path(self.tcx, inst.def_id()))));
                            v.push(("rkind", J::s(format!("{:?}", inst.def).split('(').next().unwrap_or("").to_string())));
                        }
                    }
                    // Self type of trait-method calls (first generic arg), for classification
                    if let Some(tr) = self.tcx.trait_of_assoc(*did) {
                        v.push(("trait", J::s(def_path(self.tcx, tr))));
                        if let Some(st) = gargs.types().next() {
                            v.push(("self_ty", J::s(st.to_string())));
                        }
                    } else if let Some(imp) = self.tcx.impl_of_assoc(*did) {
                        let st = self.tcx.type_of(imp).skip_binder();
                        v.push(("self_ty", J::s(st.to_string())));
                    }
                } else {
                    v.push(("indirect", J::Bool(true)));
                    v.push(("fty", J::s(fty.to_string())));
                }
                v.push(("f", self.operand(func)));
                v.push(("args", J::Arr(args.iter().map(|a| self.operand(&a.node)).collect())));
                v.push(("dest", self.place(destination)));
                v.push(("t", target.map(|t| J::Int(t.as_usize() as i128)).unwrap_or(J::Null)));
                v.push(("unwind", self.unwind(unwind)));
                v.push(("source", J::s(format!("{:?}", call_source))));
                v.push(("fn_sp", J::s(span_str(self.tcx, *fn_span))));
                v
            }
            TerminatorKind::Assert { cond, expected, msg, target, unwind } => {
                let (mk, ops): (String, Vec<J>) = match &**msg {
                    AssertKind::BoundsCheck { len, index } => {
                        ("BoundsCheck".into(), vec![self.operand(len), self.operand(index)])
                    }
                    AssertKind::Overflow(op, a, b) => {
                        (format!("Overflow:{:?}", op), vec![self.operand(a), self.operand(b)])
                    }
                    AssertKind::OverflowNeg(a) => ("OverflowNeg".into(), vec![self.operand(a)]),
                    AssertKind::DivisionByZero(a) => ("DivisionByZero".into(), vec![self.operand(a)]),
                    AssertKind::RemainderByZero(a) => ("RemainderByZero".into(), vec![self.operand(a)]),
                    other => (format!("{:?}", other).split(|c| c == '(' || c == ' ').next().unwrap_or("").to_string(), vec![]),
                };
                vec![
                    ("k", J::s("assert")),
                    ("cond", self.operand(cond)),
                    ("expected", J::Bool(*expected)),
                    ("msg", J::s(mk)),
                    ("ops", J::Arr(ops)),
                    ("t", J::Int(target.as_usize() as i128)),
                    ("unwind", self.unwind(unwind)),
                ]
            }
            TerminatorKind::FalseEdge { real_target, .. } => {
                vec![("k", J::s("goto")), ("t", J::Int(real_target.as_usize() as i128))]
            }
            TerminatorKind::FalseUnwind { real_target, .. } => {
                vec![("k", J::s("goto")), ("t", J::Int(real_target.as_usize() as i128))]
            }
            other => vec![("k", J::s("otherterm")), ("s", J::s(format!("{:?}", other)))],
        };
        v.push(("sp", J::s(span_str(self.tcx, t.source_info.span))));
        if let Some(x) = expansion_of(t.source_info.span) {
            v.push(("exp", J::s(x)));
        }
        J::Obj(v)
    }
}

fn dump_body<'tcx>(tcx: TyCtxt<'tcx>, owner: LocalDefId, body: &Body<'tcx>) -> J {
    let mx = Mx { tcx, body, owner };
    let locals: Vec<J> = body
        .local_decls
        .iter()
        .map(|d| {
            J::Obj(vec![
                ("ty", J::s(d.ty.to_string())),
                ("mut", J::Bool(d.mutability.is_mut())),
            ])
        })
        .collect();
    let dbg: Vec<J> = body
        .var_debug_info
        .iter()
        .map(|d| {
            let val = match &d.value {
                VarDebugInfoContents::Place(p) => mx.place(p),
                VarDebugInfoContents::Const(c) => mx.constant(c),
            };
            J::Obj(vec![
                ("name", J::s(d.name.as_str())),
                ("arg", d.argument_index.map(|i| J::Int(i as i128)).unwrap_or(J::Null)),
                ("val", val),
            ])
        })
        .collect();
    let mut blocks = Vec::new();
    for (_bb, data) in body.basic_blocks.iter_enumerated() {
        let stmts: Vec<J> = data.statements.iter().filter_map(|s| mx.statement(s)).collect();
        let term = data.terminator.as_ref().map(|t| mx.terminator(t)).unwrap_or(J::Null);
        blocks.push(J::Obj(vec![
            ("cleanup", if data.is_cleanup { J::Bool(true) } else { J::Null }),
            ("stmts", J::Arr(stmts)),
            ("term", term),
        ]));
    }
    J::Obj(vec![
        ("path", J::s(def_path(tcx, owner.to_def_id()))),
        ("kind", J::s(format!("{:?}", tcx.def_kind(owner)))),
        ("sp", J::s(span_str(tcx, body.span))),
        ("exp", J::opt_s(expansion_of(body.span))),
        ("arg_count", J::Int(body.arg_count as i128)),
        ("phase", J::s(format!("{:?}", body.phase))),
        ("locals", J::Arr(locals)),
        ("debug", J::Arr(dbg)),
        ("blocks", J::Arr(blocks)),
    ])
}

pub fn dump_mir(tcx: TyCtxt<'_>) -> J {
    let mut out = Vec::new();
    for owner in tcx.hir_body_owners() {
        let kind = tcx.def_kind(owner);
        if matches!(kind, DefKind::Const { .. } | DefKind::AssocConst { .. } | DefKind::Static { .. }) {
            // initialisers of named constants and statics (tables, flag constants, vocabularies): the MIR used for
            // compile-time evaluation; generic associated consts are skipped
            if tcx.generics_of(owner.to_def_id()).count() == 0 || matches!(kind, DefKind::Const { .. } | DefKind::Static { .. }) {
                let body: &mir::Body<'_> = tcx.mir_for_ctfe(owner.to_def_id());
                out.push(dump_body(tcx, owner, body));
                let path = def_path(tcx, owner.to_def_id());
                for (i, pb) in tcx.promoted_mir(owner.to_def_id()).iter_enumerated() {
                    let j = dump_body(tcx, owner, pb);
                    if let J::Obj(mut fields) = j {
                        for f in fields.iter_mut() {
                            if f.0 == "path" {
                                f.1 = J::s(format!("{}::{{promoted#{}}}", path, i.as_usize()));
                            }
                            if f.0 == "kind" {
                                f.1 = J::s("Promoted");
                            }
                        }
                        out.push(J::Obj(fields));
                    }
                }
            }
            continue;
        }
        if !matches!(kind, DefKind::Fn | DefKind::AssocFn | DefKind::Closure) {
            continue;
        }
        let body: &mir::Body<'_> = tcx.optimized_mir(owner.to_def_id());
        out.push(dump_body(tcx, owner, body));
        // promoted constants of this body (`&(4..=6)`, `&[..]`): small bodies without arguments
        let path = def_path(tcx, owner.to_def_id());
        for (i, pb) in tcx.promoted_mir(owner.to_def_id()).iter_enumerated() {
            let j = dump_body(tcx, owner, pb);
            if let J::Obj(mut fields) = j {
                for f in fields.iter_mut() {
                    if f.0 == "path" {
                        f.1 = J::s(format!("{}::{{promoted#{}}}", path, i.as_usize()));
                    }
                    if f.0 == "kind" {
                        f.1 = J::s("Promoted");
                    }
                }
                out.push(J::Obj(fields));
            }
        }
    }
    J::Arr(out)
}
