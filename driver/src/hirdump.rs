//! HIR serialisation: every local body as a typed, name-resolved expression tree.

use crate::json::J;
use crate::{expansion_of, inner_expansion_of, span_str};
use rustc_ast as ast;
use rustc_hir as hir;
use rustc_hir::def::{DefKind, Res};
use rustc_hir::def_id::{DefId, LocalDefId};
use rustc_middle::ty::{self, TyCtxt, TypeckResults};

pub fn def_path(tcx: TyCtxt<'_>, id: DefId) -> String {
    tcx.def_path_str(id)
}

// ---------------------------------------------------------------------------------------
// format_args! templates from the pre-lowering AST

struct FmtVisitor<'a, 'tcx> {
    tcx: TyCtxt<'tcx>,
    out: &'a mut Vec<J>,
}

impl<'a, 'tcx, 'ast> ast::visit::Visitor<'ast> for FmtVisitor<'a, 'tcx> {
    fn visit_expr(&mut self, e: &'ast ast::Expr) {
        if let ast::ExprKind::FormatArgs(fa) = &e.kind {
            let mut pieces = Vec::new();
            for p in fa.template.iter() {
                match p {
                    ast::FormatArgsPiece::Literal(sym) => {
                        pieces.push(J::Obj(vec![("lit", J::s(sym.as_str()))]))
                    }
                    ast::FormatArgsPiece::Placeholder(ph) => {
                        let idx = match ph.argument.index {
                            Ok(i) => i as i128,
                            Err(_) => -1,
                        };
                        pieces.push(J::Obj(vec![
                            ("arg", J::Int(idx)),
                            ("trait", J::s(format!("{:?}", ph.format_trait))),
                            ("plain", J::Bool(format!("{:?}", ph.format_options) == format!("{:?}", ast::FormatOptions::default()))),
                            ("opts", J::s(format!("{:?}", ph.format_options))),
                        ]))
                    }
                }
            }
            let args: Vec<J> = fa
                .arguments
                .all_args()
                .iter()
                .map(|a| {
                    J::Obj(vec![
                        ("expr", J::s(rustc_ast_pretty::pprust::expr_to_string(&a.expr))),
                        ("sp", J::s(span_str(self.tcx, a.expr.span))),
                    ])
                })
                .collect();
            self.out.push(J::Obj(vec![
                ("sp", J::s(span_str(self.tcx, fa.span))),
                ("macro_sp", J::s(span_str(self.tcx, e.span))),
                ("exp", J::opt_s(expansion_of(e.span))),
                ("pieces", J::Arr(pieces)),
                ("args", J::Arr(args)),
            ]));
        }
        ast::visit::walk_expr(self, e);
    }
}

pub fn collect_format_args(tcx: TyCtxt<'_>) -> Vec<J> {
    let mut out = Vec::new();
    let resolver = tcx.resolver_for_lowering().borrow();
    let krate: &ast::Crate = &resolver.1;
    let mut v = FmtVisitor { tcx, out: &mut out };
    ast::visit::walk_crate(&mut v, krate);
    out
}

// ---------------------------------------------------------------------------------------

pub struct Cx<'tcx> {
    pub tcx: TyCtxt<'tcx>,
    pub typeck: &'tcx TypeckResults<'tcx>,
    pub owner: LocalDefId,
    pub unsafe_blocks: Vec<J>,
}

fn lit_json(l: &hir::Lit) -> J {
    use ast::LitKind::*;
    match &l.node {
        Str(s, _) => J::Obj(vec![("t", J::s("str")), ("v", J::s(s.as_str()))]),
        ByteStr(b, _) => {
            let bytes = b.as_byte_str();
            J::Obj(vec![
                ("t", J::s("bytestr")),
                ("v", J::Arr(bytes.iter().map(|x| J::Int(*x as i128)).collect())),
                ("s", J::s(String::from_utf8_lossy(bytes).to_string())),
            ])
        }
        CStr(b, _) => J::Obj(vec![("t", J::s("cstr")), ("s", J::s(String::from_utf8_lossy(b.as_byte_str()).to_string()))]),
        Byte(b) => J::Obj(vec![("t", J::s("byte")), ("v", J::Int(*b as i128))]),
        Char(c) => J::Obj(vec![("t", J::s("char")), ("v", J::s(c.to_string()))]),
        Int(n, _) => J::Obj(vec![("t", J::s("int")), ("v", J::Int(n.get() as i128))]),
        Float(s, _) => J::Obj(vec![("t", J::s("float")), ("v", J::s(s.as_str()))]),
        Bool(b) => J::Obj(vec![("t", J::s("bool")), ("v", J::Bool(*b))]),
        Err(_) => J::Obj(vec![("t", J::s("err"))]),
    }
}

impl<'tcx> Cx<'tcx> {
    fn res_json(&self, res: Res) -> J {
        match res {
            Res::Local(hid) => {
                let name = self.tcx.hir_name(hid).to_string();
                J::Obj(vec![
                    ("t", J::s("local")),
                    ("id", J::Int(hid.local_id.as_u32() as i128)),
                    ("name", J::s(name)),
                ])
            }
            Res::Def(kind, did) => {
                let mut v = vec![
                    ("t", J::s("def")),
                    ("kind", J::s(format!("{:?}", kind))),
                    ("path", J::s(def_path(self.tcx, did))),
                ];
                if let DefKind::Ctor(..) = kind {
                    // the variant / struct this constructor belongs to
                    let parent = self.tcx.parent(did);
                    v.push(("ctor_of", J::s(def_path(self.tcx, parent))));
                }
                J::Obj(v)
            }
            Res::SelfTyAlias { alias_to, .. } => J::Obj(vec![
                ("t", J::s("selfty")),
                ("path", J::s(def_path(self.tcx, alias_to))),
            ]),
            Res::SelfCtor(did) => J::Obj(vec![("t", J::s("selfctor")), ("path", J::s(def_path(self.tcx, did)))]),
            Res::PrimTy(p) => J::Obj(vec![("t", J::s("prim")), ("name", J::s(p.name_str()))]),
            other => J::Obj(vec![("t", J::s("other")), ("dbg", J::s(format!("{:?}", other)))]),
        }
    }

    fn resolve_instance(&self, did: DefId, args: ty::GenericArgsRef<'tcx>) -> Option<String> {
        match self.tcx.def_kind(did) {
            DefKind::Fn | DefKind::AssocFn => {}
            _ => return None,
        }
        if self.tcx.generics_of(did).count() != args.len() {
            return None;
        }
        let env = ty::TypingEnv::post_analysis(self.tcx, self.owner);
        // resolution can fail for still-generic callees; that is fine
        let args = self.tcx.erase_and_anonymize_regions(args);
        if let Ok(Some(inst)) = ty::Instance::try_resolve(self.tcx, env, did, args) {
            Some(def_path(self.tcx, inst.def_id()))
        } else {
            None
        }
    }

    fn common(&self, kind: &'static str, e: &hir::Expr<'tcx>) -> Vec<(&'static str, J)> {
        let ty = self.typeck.expr_ty_opt(e).map(|t| t.to_string());
        let adj = self.typeck.expr_adjustments(e);
        let mut v = vec![
            ("k", J::s(kind)),
            ("id", J::Int(e.hir_id.local_id.as_u32() as i128)),
            ("sp", J::s(span_str(self.tcx, e.span))),
            ("ty", J::opt_s(ty)),
        ];
        if !adj.is_empty() {
            v.push(("aty", J::s(self.typeck.expr_ty_adjusted(e).to_string())));
        }
        if let Some(x) = expansion_of(e.span) {
            v.push(("exp", J::s(x)));
            if let Some(i) = inner_expansion_of(e.span) {
                v.push(("iexp", J::s(i)));
            }
        }
        v
    }

    pub fn pat(&mut self, p: &hir::Pat<'tcx>) -> J {
        use hir::PatKind::*;
        let mut v: Vec<(&'static str, J)> = Vec::new();
        let kind: &'static str = match &p.kind {
            Missing => "Missing",
            Wild => "Wild",
            Binding(mode, hid, ident, sub) => {
                v.push(("bid", J::Int(hid.local_id.as_u32() as i128)));
                v.push(("name", J::s(ident.name.as_str())));
                v.push(("mode", J::s(format!("{:?}", mode))));
                if let Some(s) = sub {
                    let sj = self.pat(s);
                    v.push(("sub", sj));
                }
                "Binding"
            }
            Struct(qp, fields, rest) => {
                let res = self.typeck.qpath_res(qp, p.hir_id);
                v.push(("res", self.res_json(res)));
                let fs: Vec<J> = fields
                    .iter()
                    .map(|f| {
                        let pj = self.pat(f.pat);
                        J::Obj(vec![("name", J::s(f.ident.name.as_str())), ("p", pj)])
                    })
                    .collect();
                v.push(("fields", J::Arr(fs)));
                v.push(("rest", J::Bool(rest.is_some())));
                "Struct"
            }
            TupleStruct(qp, ps, dd) => {
                let res = self.typeck.qpath_res(qp, p.hir_id);
                v.push(("res", self.res_json(res)));
                let pj: Vec<J> = ps.iter().map(|x| self.pat(x)).collect();
                v.push(("ps", J::Arr(pj)));
                if let Some(pos) = dd.as_opt_usize() {
                    v.push(("ddpos", J::Int(pos as i128)));
                }
                "TupleStruct"
            }
            Or(ps) => {
                let pj: Vec<J> = ps.iter().map(|x| self.pat(x)).collect();
                v.push(("ps", J::Arr(pj)));
                "Or"
            }
            Never => "Never",
            Tuple(ps, dd) => {
                let pj: Vec<J> = ps.iter().map(|x| self.pat(x)).collect();
                v.push(("ps", J::Arr(pj)));
                if let Some(pos) = dd.as_opt_usize() {
                    v.push(("ddpos", J::Int(pos as i128)));
                }
                "Tuple"
            }
            Box(i) => {
                let ij = self.pat(i);
                v.push(("p", ij));
                "Box"
            }
            Deref(i) => {
                let ij = self.pat(i);
                v.push(("p", ij));
                "Deref"
            }
            Ref(i, _, m) => {
                let ij = self.pat(i);
                v.push(("p", ij));
                v.push(("mut", J::Bool(m.is_mut())));
                "Ref"
            }
            Expr(pe) => match &pe.kind {
                hir::PatExprKind::Lit { lit, negated } => {
                    v.push(("lit", lit_json(lit)));
                    v.push(("neg", J::Bool(*negated)));
                    "Lit"
                }
                hir::PatExprKind::Path(qp) => {
                    let res = self.typeck.qpath_res(qp, pe.hir_id);
                    v.push(("res", self.res_json(res)));
                    "Path"
                }
            },
            Guard(i, g) => {
                let ij = self.pat(i);
                let gj = self.expr(g);
                v.push(("p", ij));
                v.push(("guard", gj));
                "Guard"
            }
            Range(..) => "Range",
            Slice(a, m, b) => {
                let aj: Vec<J> = a.iter().map(|x| self.pat(x)).collect();
                let bj: Vec<J> = b.iter().map(|x| self.pat(x)).collect();
                v.push(("before", J::Arr(aj)));
                v.push(("after", J::Arr(bj)));
                if let Some(m) = m {
                    let mj = self.pat(m);
                    v.push(("mid", mj));
                }
                "Slice"
            }
            Err(_) => "Err",
        };
        let mut out = vec![
            ("k", J::s(kind)),
            ("id", J::Int(p.hir_id.local_id.as_u32() as i128)),
            ("sp", J::s(span_str(self.tcx, p.span))),
        ];
        if let Some(t) = self.typeck.node_type_opt(p.hir_id) {
            out.push(("ty", J::s(t.to_string())));
        }
        out.extend(v);
        J::Obj(out)
    }

    fn block(&mut self, b: &hir::Block<'tcx>) -> J {
        let mut stmts = Vec::new();
        for s in b.stmts {
            match &s.kind {
                hir::StmtKind::Let(l) => {
                    let pj = self.pat(l.pat);
                    let init = l.init.map(|e| self.expr(e)).unwrap_or(J::Null);
                    let els = l.els.map(|b| self.block(b)).unwrap_or(J::Null);
                    stmts.push(J::Obj(vec![
                        ("k", J::s("Let")),
                        ("sp", J::s(span_str(self.tcx, s.span))),
                        ("src", J::s(format!("{:?}", l.source))),
                        ("pat", pj),
                        ("init", init),
                        ("els", els),
                    ]));
                }
                hir::StmtKind::Item(_) => stmts.push(J::Obj(vec![("k", J::s("Item"))])),
                hir::StmtKind::Expr(e) => {
                    let ej = self.expr(e);
                    stmts.push(J::Obj(vec![("k", J::s("Expr")), ("e", ej)]));
                }
                hir::StmtKind::Semi(e) => {
                    let ej = self.expr(e);
                    stmts.push(J::Obj(vec![("k", J::s("Semi")), ("e", ej)]));
                }
            }
        }
        let tail = b.expr.map(|e| self.expr(e)).unwrap_or(J::Null);
        let is_unsafe = matches!(b.rules, hir::BlockCheckMode::UnsafeBlock(_));
        if is_unsafe {
            self.unsafe_blocks.push(J::Obj(vec![
                ("sp", J::s(span_str(self.tcx, b.span))),
                ("exp", J::opt_s(expansion_of(b.span))),
                ("rules", J::s(format!("{:?}", b.rules))),
            ]));
        }
        J::Obj(vec![
            ("k", J::s("Block")),
            ("sp", J::s(span_str(self.tcx, b.span))),
            ("unsafe", if is_unsafe { J::Bool(true) } else { J::Null }),
            ("stmts", J::Arr(stmts)),
            ("expr", tail),
        ])
    }

    pub fn expr(&mut self, e: &hir::Expr<'tcx>) -> J {
        use hir::ExprKind::*;
        match &e.kind {
            DropTemps(inner) => return self.expr(inner),
            Use(inner, _) => return self.expr(inner),
            _ => {}
        }
        let (kind, extra): (&'static str, Vec<(&'static str, J)>) = match &e.kind {
            ConstBlock(_) => ("ConstBlock", vec![]),
            Array(es) => ("Array", vec![("es", J::Arr(es.iter().map(|x| self.expr(x)).collect()))]),
            Tup(es) => ("Tup", vec![("es", J::Arr(es.iter().map(|x| self.expr(x)).collect()))]),
            Call(f, args) => {
                let mut v = Vec::new();
                if let hir::ExprKind::Path(qp) = &f.kind {
                    let res = self.typeck.qpath_res(qp, f.hir_id);
                    if let Res::Def(_, did) = res {
                        v.push(("callee", J::s(def_path(self.tcx, did))));
                        let args_ty = self.typeck.node_args(f.hir_id);
                        v.push(("gargs", J::s(format!("{:?}", args_ty))));
                        if let Some(r) = self.resolve_instance(did, args_ty) {
                            v.push(("resolved", J::s(r)));
                        }
                    }
                }
                v.push(("f", self.expr(f)));
                v.push(("args", J::Arr(args.iter().map(|x| self.expr(x)).collect())));
                ("Call", v)
            }
            MethodCall(seg, recv, args, _) => {
                let mut v = vec![("name", J::s(seg.ident.name.as_str()))];
                if let Some(did) = self.typeck.type_dependent_def_id(e.hir_id) {
                    v.push(("callee", J::s(def_path(self.tcx, did))));
                    let args_ty = self.typeck.node_args(e.hir_id);
                    v.push(("gargs", J::s(format!("{:?}", args_ty))));
                    if let Some(r) = self.resolve_instance(did, args_ty) {
                        v.push(("resolved", J::s(r)));
                    }
                }
                v.push(("recv", self.expr(recv)));
                v.push(("args", J::Arr(args.iter().map(|x| self.expr(x)).collect())));
                ("MethodCall", v)
            }
            Binary(op, l, r) => {
                let mut v = vec![("op", J::s(format!("{:?}", op.node)))];
                if self.typeck.is_method_call(e) {
                    if let Some(did) = self.typeck.type_dependent_def_id(e.hir_id) {
                        v.push(("callee", J::s(def_path(self.tcx, did))));
                    }
                }
                v.push(("l", self.expr(l)));
                v.push(("r", self.expr(r)));
                ("Binary", v)
            }
            Unary(op, x) => {
                let mut v = vec![("op", J::s(format!("{:?}", op)))];
                if self.typeck.is_method_call(e) {
                    if let Some(did) = self.typeck.type_dependent_def_id(e.hir_id) {
                        v.push(("callee", J::s(def_path(self.tcx, did))));
                    }
                }
                v.push(("e", self.expr(x)));
                ("Unary", v)
            }
            Lit(l) => ("Lit", vec![("lit", lit_json(l))]),
            Cast(x, _) => ("Cast", vec![("e", self.expr(x))]),
            Type(x, _) => ("Type", vec![("e", self.expr(x))]),
            Let(l) => {
                let pj = self.pat(l.pat);
                ("Let", vec![("pat", pj), ("init", self.expr(l.init))])
            }
            If(c, t, el) => {
                let cj = self.expr(c);
                let tj = self.expr(t);
                let ej = el.map(|x| self.expr(x)).unwrap_or(J::Null);
                ("If", vec![("c", cj), ("t", tj), ("e", ej)])
            }
            Loop(b, label, src, _) => {
                let bj = self.block(b);
                (
                    "Loop",
                    vec![
                        ("src", J::s(format!("{:?}", src))),
                        ("label", J::opt_s(label.map(|l| l.ident.name.to_string()))),
                        ("body", bj),
                    ],
                )
            }
            Match(scrut, arms, src) => {
                let sj = self.expr(scrut);
                let mut aj = Vec::new();
                for a in arms.iter() {
                    let pj = self.pat(a.pat);
                    let gj = a.guard.map(|g| self.expr(g)).unwrap_or(J::Null);
                    let bj = self.expr(a.body);
                    aj.push(J::Obj(vec![
                        ("sp", J::s(span_str(self.tcx, a.span))),
                        ("pat", pj),
                        ("guard", gj),
                        ("body", bj),
                    ]));
                }
                ("Match", vec![("src", J::s(format!("{:?}", src))), ("scrut", sj), ("arms", J::Arr(aj))])
            }
            Closure(c) => {
                let body = self.tcx.hir_body(c.body);
                let params: Vec<J> = body.params.iter().map(|p| self.pat(p.pat)).collect();
                let bj = self.expr(body.value);
                (
                    "Closure",
                    vec![
                        ("def", J::s(def_path(self.tcx, c.def_id.to_def_id()))),
                        ("params", J::Arr(params)),
                        ("body", bj),
                    ],
                )
            }
            Block(b, label) => {
                let bj = self.block(b);
                ("BlockExpr", vec![("label", J::opt_s(label.map(|l| l.ident.name.to_string()))), ("block", bj)])
            }
            Assign(l, r, _) => {
                let lj = self.expr(l);
                let rj = self.expr(r);
                ("Assign", vec![("l", lj), ("r", rj)])
            }
            AssignOp(op, l, r) => {
                let lj = self.expr(l);
                let rj = self.expr(r);
                ("AssignOp", vec![("op", J::s(format!("{:?}", op.node))), ("l", lj), ("r", rj)])
            }
            Field(x, ident) => ("Field", vec![("name", J::s(ident.name.as_str())), ("e", self.expr(x))]),
            Index(x, i, _) => {
                let mut v = Vec::new();
                if self.typeck.is_method_call(e) {
                    if let Some(did) = self.typeck.type_dependent_def_id(e.hir_id) {
                        v.push(("callee", J::s(def_path(self.tcx, did))));
                    }
                }
                v.push(("e", self.expr(x)));
                v.push(("i", self.expr(i)));
                ("Index", v)
            }
            Path(qp) => {
                let res = self.typeck.qpath_res(qp, e.hir_id);
                ("Path", vec![("res", self.res_json(res))])
            }
            AddrOf(_, m, x) => ("AddrOf", vec![("mut", J::Bool(m.is_mut())), ("e", self.expr(x))]),
            Break(dest, x) => (
                "Break",
                vec![
                    ("label", J::opt_s(dest.label.map(|l| l.ident.name.to_string()))),
                    ("target", dest.target_id.ok().map(|h| J::Int(h.local_id.as_u32() as i128)).unwrap_or(J::Null)),
                    ("e", x.map(|x| self.expr(x)).unwrap_or(J::Null)),
                ],
            ),
            Continue(dest) => (
                "Continue",
                vec![("target", dest.target_id.ok().map(|h| J::Int(h.local_id.as_u32() as i128)).unwrap_or(J::Null))],
            ),
            Ret(x) => ("Ret", vec![("e", x.map(|x| self.expr(x)).unwrap_or(J::Null))]),
            Become(x) => ("Become", vec![("e", self.expr(x))]),
            InlineAsm(_) => ("InlineAsm", vec![]),
            OffsetOf(..) => ("OffsetOf", vec![]),
            Struct(qp, fields, tail) => {
                let res = self.typeck.qpath_res(qp, e.hir_id);
                let rj = self.res_json(res);
                let fs: Vec<J> = fields
                    .iter()
                    .map(|f| {
                        let ej = self.expr(f.expr);
                        J::Obj(vec![("name", J::s(f.ident.name.as_str())), ("e", ej)])
                    })
                    .collect();
                let base = match tail {
                    hir::StructTailExpr::Base(b) => self.expr(b),
                    _ => J::Null,
                };
                ("Struct", vec![("res", rj), ("fields", J::Arr(fs)), ("base", base)])
            }
            Repeat(x, _) => ("Repeat", vec![("e", self.expr(x))]),
            Yield(x, _) => ("Yield", vec![("e", self.expr(x))]),
            UnsafeBinderCast(_, x, _) => ("UnsafeBinderCast", vec![("e", self.expr(x))]),
            Err(_) => ("Err", vec![]),
            DropTemps(_) | Use(..) => unreachable!(),
        };
        let mut v = self.common(kind, e);
        v.extend(extra);
        J::Obj(v)
    }
}

pub fn dump_bodies(tcx: TyCtxt<'_>) -> J {
    let mut out = Vec::new();
    for owner in tcx.hir_body_owners() {
        let kind = tcx.def_kind(owner);
        // closures are serialised inline in their parent
        if matches!(kind, DefKind::Closure) {
            continue;
        }
        let Some(body) = tcx.hir_maybe_body_owned_by(owner) else { continue };
        let typeck = tcx.typeck(owner);
        let mut cx = Cx { tcx, typeck, owner, unsafe_blocks: Vec::new() };
        let params: Vec<J> = body.params.iter().map(|p| cx.pat(p.pat)).collect();
        let value = cx.expr(body.value);
        let span = tcx.def_span(owner);
        out.push(J::Obj(vec![
            ("path", J::s(def_path(tcx, owner.to_def_id()))),
            ("kind", J::s(format!("{:?}", kind))),
            ("sp", J::s(span_str(tcx, span))),
            ("body_sp", J::s(span_str(tcx, body.value.span))),
            ("exp", J::opt_s(expansion_of(span))),
            ("params", J::Arr(params)),
            ("value", value),
            ("unsafe_blocks", J::Arr(cx.unsafe_blocks)),
        ]));
    }
    J::Arr(out)
}
