//! t2n-facts: a rustc_private driver that serialises type-resolved facts about the crate
//! `text2num` (HIR trees, MIR bodies, item tables, format-string templates) into one JSON
//! file.  It performs no judgement: every rule lives in /verif/analysis.
//!
//! Invocation: as RUSTC_WORKSPACE_WRAPPER (argv = [self, rustc, args...]).  Facts are written
//! only for the crate named by T2N_CRATE (default text2num) to the path in T2N_FACTS_OUT.
#![feature(rustc_private)]

extern crate rustc_abi;
extern crate rustc_ast;
extern crate rustc_ast_pretty;
extern crate rustc_driver;
extern crate rustc_hir;
extern crate rustc_infer;
extern crate rustc_interface;
extern crate rustc_middle;
extern crate rustc_session;
extern crate rustc_span;
extern crate rustc_trait_selection;

mod hirdump;
mod items;
mod json;
mod mirdump;

use json::J;
use rustc_driver::Compilation;
use rustc_interface::interface::Compiler;
use rustc_middle::ty::TyCtxt;
use rustc_span::Span;

pub fn span_str(tcx: TyCtxt<'_>, sp: Span) -> String {
    let sp = sp.source_callsite();
    let sm = tcx.sess.source_map();
    if sp.is_dummy() {
        return "?".to_string();
    }
    let lo = sm.lookup_char_pos(sp.lo());
    let hi = sm.lookup_char_pos(sp.hi());
    let name = match &lo.file.name {
        rustc_span::FileName::Real(r) => match r.local_path() {
            Some(p) => p.to_string_lossy().to_string(),
            None => format!("{:?}", lo.file.name),
        },
        other => format!("{:?}", other),
    };
    format!("{}:{}:{}-{}:{}", name, lo.line, lo.col.0 + 1, hi.line, hi.col.0 + 1)
}

/// Name of the outermost macro whose expansion produced this span (None for user-written code).
pub fn expansion_of(sp: Span) -> Option<String> {
    if !sp.from_expansion() {
        return None;
    }
    let mut data = sp.ctxt().outer_expn_data();
    // walk to the outermost expansion
    loop {
        let cs = data.call_site;
        if cs.from_expansion() {
            data = cs.ctxt().outer_expn_data();
        } else {
            break;
        }
    }
    Some(match data.kind {
        rustc_span::ExpnKind::Macro(_, name) => format!("macro:{}", name),
        rustc_span::ExpnKind::Desugaring(d) => format!("desugar:{:?}", d),
        rustc_span::ExpnKind::AstPass(p) => format!("astpass:{:?}", p),
        rustc_span::ExpnKind::Root => "root".to_string(),
    })
}

/// Name of the innermost expansion (e.g. `desugar:ForLoop` inside user code).
pub fn inner_expansion_of(sp: Span) -> Option<String> {
    if !sp.from_expansion() {
        return None;
    }
    let data = sp.ctxt().outer_expn_data();
    Some(match data.kind {
        rustc_span::ExpnKind::Macro(_, name) => format!("macro:{}", name),
        rustc_span::ExpnKind::Desugaring(d) => format!("desugar:{:?}", d),
        rustc_span::ExpnKind::AstPass(p) => format!("astpass:{:?}", p),
        rustc_span::ExpnKind::Root => "root".to_string(),
    })
}

struct Facts {
    format_args: Vec<J>,
}

impl rustc_driver::Callbacks for Facts {
    fn after_expansion<'tcx>(&mut self, _c: &Compiler, tcx: TyCtxt<'tcx>) -> Compilation {
        self.format_args = hirdump::collect_format_args(tcx);
        Compilation::Continue
    }

    fn after_analysis<'tcx>(&mut self, _c: &Compiler, tcx: TyCtxt<'tcx>) -> Compilation {
        let out_path = std::env::var("T2N_FACTS_OUT").expect("T2N_FACTS_OUT");
        let nonce = std::env::var("T2N_NONCE").unwrap_or_default();
        let doc = rustc_middle::ty::print::with_no_visible_paths!(rustc_middle::ty::print::with_no_trimmed_paths!({
            let bodies = hirdump::dump_bodies(tcx);
            let mir = mirdump::dump_mir(tcx);
            let items = items::dump_items(tcx);
            J::Obj(vec![
                ("nonce", J::s(nonce)),
                ("crate", J::s(tcx.crate_name(rustc_hir::def_id::LOCAL_CRATE).to_string())),
                ("debug_assertions", J::Bool(tcx.sess.opts.debug_assertions)),
                ("overflow_checks", J::Bool(tcx.sess.overflow_checks())),
                ("format_args", J::Arr(std::mem::take(&mut self.format_args))),
                ("bodies", bodies),
                ("mir", mir),
                ("items", items),
            ])
        }));
        let mut s = String::with_capacity(1 << 24);
        doc.write(&mut s);
        std::fs::write(&out_path, s).expect("write facts");
        Compilation::Continue
    }
}

struct Plain;
impl rustc_driver::Callbacks for Plain {}

fn main() {
    let mut args: Vec<String> = std::env::args().collect();
    // RUSTC_WORKSPACE_WRAPPER convention: argv[1] is the path of the real rustc; drop it.
    if args.len() > 1 && (args[1].ends_with("rustc") || args[1].contains("rustc")) && !args[1].starts_with('-') {
        args.remove(1);
    }
    let want = std::env::var("T2N_CRATE").unwrap_or_else(|_| "text2num".to_string());
    let mut is_target = false;
    for w in args.windows(2) {
        if w[0] == "--crate-name" && w[1] == want {
            is_target = true;
        }
    }
    // never act on build scripts / test harness builds
    if args.iter().any(|a| a == "--test") {
        is_target = false;
    }
    if is_target && std::env::var("T2N_FACTS_OUT").is_ok() {
        let mut cb = Facts { format_args: Vec::new() };
        rustc_driver::run_compiler(&args, &mut cb);
    } else {
        rustc_driver::run_compiler(&args, &mut Plain);
    }
}
