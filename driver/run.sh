#!/bin/sh
# usage: run.sh <repo> <out.json> [extra rustflags]
set -e
REPO=$1; OUT=$2; EXTRA=$3
T=$(mktemp -d)
trap 'rm -rf $T' EXIT
cd $REPO
LD_LIBRARY_PATH=$(rustc +nightly --print sysroot)/lib RUSTFLAGS="-Zmir-opt-level=0 -Awarnings $EXTRA" RUSTC_WORKSPACE_WRAPPER=/verif/driver/target/release/t2n-facts T2N_FACTS_OUT=$OUT T2N_NONCE=dev CARGO_TARGET_DIR=$T cargo +nightly check --offline --lib 2>&1 | grep -v "^\s*Compiling\|Checking" | head -40
